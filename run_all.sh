#!/bin/sh
# Runs every registered check (default: quick) one after the other; prints one line per check.
cd "$(dirname "$0")" || exit 2
TIER="${1:-quick}"
rc=0
for p in $(/venv/bin/python -c "import json; print(' '.join(c['property_id'] for c in json.load(open('MANIFEST.json'))['checks']))"); do
  out=$(./check "$p" --tier "$TIER" 2>&1); code=$?
  echo "$out" | grep -E "^(VIOLATION|KNOWN-FINDING|HARNESS-ERROR)" | cut -c1-160
  echo "$out" | tail -1
  [ $code -ne 0 ] && rc=1
done
exit $rc
