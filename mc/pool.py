"""Fork-based worker pool: deterministic sharding of an enumerated space."""
import multiprocessing
import os
import signal
import sys
import traceback

from mc.tally import Tally

NPROC = int(os.environ.get("VERIF_NPROC", "0")) or min(16, os.cpu_count() or 1)


class Watchdog(BaseException):
    """Raised inside a worker when one execution exceeds its horizon."""


def _alarm(signum, frame):
    raise Watchdog()


def with_watchdog(seconds, fn, *args, **kwargs):
    """Run fn(*args, **kwargs) under a per-execution horizon of `seconds` of *CPU time*
    (ITIMER_PROF: user + system time of this process).  CPU time rather than wall-clock time
    makes the verdict independent of machine load (a starved process is not a hung one);
    the code under test performs no blocking I/O, so a non-terminating execution burns CPU."""
    old = signal.signal(signal.SIGPROF, _alarm)
    signal.setitimer(signal.ITIMER_PROF, seconds)
    try:
        return fn(*args, **kwargs)
    finally:
        signal.setitimer(signal.ITIMER_PROF, 0)
        signal.signal(signal.SIGPROF, old)


_FN = None


def _run_shard(arg):
    shard_index, shard = arg
    try:
        t = _FN(shard)
        if not isinstance(t, Tally):
            raise TypeError("shard function must return a Tally")
        return t
    except BaseException:  # noqa -- report, never lose a shard silently
        t = Tally()
        t.error("shard %r crashed:\n%s" % (shard_index, traceback.format_exc()))
        return t


def map_shards(fn, shards, nproc=None):
    """Run fn(shard) -> Tally for every shard (fork pool), merge the tallies.

    `shards` is a list of picklable descriptions; `fn` must be a module-level
    function or closure (fork start method: it is inherited, not pickled).
    """
    global _FN
    shards = list(shards)
    nproc = nproc or NPROC
    total = Tally()
    total.count("shards", len(shards))
    if nproc <= 1 or len(shards) <= 1:
        _FN = fn
        for i, s in enumerate(shards):
            total.merge(_run_shard((i, s)))
        return total
    _FN = fn
    ctx = multiprocessing.get_context("fork")
    sys.stdout.flush()
    sys.stderr.flush()
    with ctx.Pool(min(nproc, len(shards))) as pool:
        for t in pool.imap_unordered(_run_shard, list(enumerate(shards)), chunksize=1):
            total.merge(t)
    return total


def strided(n_items, n_shards):
    """Shard descriptions (offset, stride) covering range(n_items)."""
    n_shards = max(1, min(n_shards, n_items))
    return [(w, n_shards) for w in range(n_shards)]
