"""Controlled scheduler for real worker *processes* sharing a directory (C24).

Each worker runs in its own forked child.  Filesystem operations that name a
*conflict path* are scheduling points: the child announces the operation on a
pipe and blocks until the controller grants it, performs it, and reports
completion.  Exactly one child runs between two scheduling points, so an
execution is fully determined by the sequence of grants (the schedule).

`explore()` enumerates schedules statelessly (re-executing from scratch),
optionally bounded by the number of preemptions, with a visited-state cut.
"""
import builtins
import json
import os
import select
import signal
import sys
import traceback

MUTATING = ("mkdir", "open_w", "rename", "replace", "remove", "rmdir")


def _norm(path):
    try:
        p = os.fspath(path)
    except TypeError:
        return None
    if isinstance(p, bytes):
        p = p.decode("utf-8", "replace")
    return os.path.normpath(os.path.join(os.getcwd(), p))


class ChildHooks(object):
    """Installed in the child after fork."""

    def __init__(self, root, req_fd, grant_fd, conflict_paths=None, record=None):
        self.root = root  # absolute path; only operations inside it are observed
        self.req = req_fd
        self.grant = grant_fd
        self.conflict = conflict_paths  # set of root-relative paths, or None = everything inside root
        self.record = record  # list to append (op, relpath) to (recording mode), or None

    def rel(self, path):
        p = _norm(path)
        if p is None:
            return None
        if p == self.root or p.startswith(self.root + os.sep):
            return os.path.relpath(p, self.root)
        return None

    def point(self, op, path, fn, path2=None):
        """path2: the second path of a two-path operation (the source of a rename / replace);
        such an operation is one atomic step that touches (and mutates) both paths."""
        rel = self.rel(path)
        rel2 = self.rel(path2) if path2 is not None else None
        if rel is None and rel2 is not None:
            rel, rel2 = rel2, None
        if rel is None:
            return fn()
        if self.record is not None:
            self.record.append((op, rel))
            if rel2 is not None:
                self.record.append((op, rel2))
            return fn()
        if self.conflict is not None and rel not in self.conflict and (rel2 is None or rel2 not in self.conflict):
            return fn()
        if rel2 is not None:
            rel = rel + "\x00" + rel2
        os.write(self.req, (json.dumps(["op", op, rel]) + "\n").encode())
        g = os.read(self.grant, 1)
        if g != b"g":
            os._exit(97)
        try:
            r = fn()
            os.write(self.req, (json.dumps(["done", "ok"]) + "\n").encode())
            return r
        except BaseException as e:  # noqa
            os.write(self.req, (json.dumps(["done", type(e).__name__]) + "\n").encode())
            raise

    def install(self):
        real_mkdir, real_stat, real_listdir = os.mkdir, os.stat, os.listdir
        real_rename, real_replace, real_remove, real_rmdir = os.rename, os.replace, os.remove, os.rmdir
        real_open = builtins.open
        h = self

        def mkdir(path, *a, **k):
            return h.point("mkdir", path, lambda: real_mkdir(path, *a, **k))

        def stat(path, *a, **k):
            if isinstance(path, int):
                return real_stat(path, *a, **k)
            return h.point("stat", path, lambda: real_stat(path, *a, **k))

        def listdir(path=".", *a, **k):
            return h.point("listdir", path, lambda: real_listdir(path, *a, **k))

        def rename(src, dst, *a, **k):
            return h.point("rename", dst, lambda: real_rename(src, dst, *a, **k), src)

        def replace(src, dst, *a, **k):
            return h.point("replace", dst, lambda: real_replace(src, dst, *a, **k), src)

        def remove(path, *a, **k):
            return h.point("remove", path, lambda: real_remove(path, *a, **k))

        def rmdir(path, *a, **k):
            return h.point("rmdir", path, lambda: real_rmdir(path, *a, **k))

        def open_(file, mode="r", *a, **k):
            if isinstance(file, int) or not any(c in mode for c in "wax+"):
                return real_open(file, mode, *a, **k)
            return h.point("open_w", file, lambda: real_open(file, mode, *a, **k))

        os.mkdir, os.stat, os.listdir = mkdir, stat, listdir
        os.rename, os.replace, os.remove, os.rmdir = rename, replace, remove, rmdir
        os.unlink = remove
        builtins.open = open_
        import io

        io.open = open_


def record_ops(fn, workdir, root_rel):
    """Run fn() alone in a forked child inside workdir; return its (op, relpath) list."""
    r, w = os.pipe()
    pid = os.fork()
    if pid == 0:
        try:
            os.close(r)
            os.chdir(workdir)
            rec = []
            ChildHooks(os.path.join(workdir, root_rel), -1, -1, None, rec).install()
            code = 0
            try:
                fn()
            except BaseException:  # noqa
                code = 1
            os.write(w, json.dumps(rec).encode())
            os.close(w)
        finally:
            os._exit(code)
    os.close(w)
    chunks = []
    while True:
        c = os.read(r, 65536)
        if not c:
            break
        chunks.append(c)
    os.close(r)
    _, status = os.waitpid(pid, 0)
    return json.loads(b"".join(chunks).decode() or "[]"), status


class Execution(object):
    """One controlled execution of a set of workers."""

    def __init__(self, workers, workdir, root_rel, conflict_paths, timeout=900.0):
        self.workers = workers  # [(name, callable)]
        self.workdir = workdir
        self.root_rel = root_rel
        self.conflict = conflict_paths
        self.timeout = timeout

    def run(self, prefix, policy=None):
        """Run to completion following `prefix` (list of worker indices), then
        `policy(enabled, last)` (default: continue the last worker if enabled, else lowest index).

        Returns dict(points=[(enabled, chosen, last)], ops=[(worker, op, path, result)], exits={i: status}, deadlock=bool)
        """
        n = len(self.workers)
        req_r, grant_w, pids = {}, {}, {}
        for i, (name, fn) in enumerate(self.workers):
            rr, rw = os.pipe()
            gr, gw = os.pipe()
            sys.stdout.flush()
            sys.stderr.flush()
            pid = os.fork()
            if pid == 0:
                code = 0
                try:
                    os.close(rr)
                    os.close(gw)
                    for fd in list(req_r.values()) + list(grant_w.values()):
                        os.close(fd)
                    os.chdir(self.workdir)
                    ChildHooks(os.path.join(self.workdir, self.root_rel), rw, gr, self.conflict).install()
                    fn()
                except BaseException:  # noqa
                    code = 1
                    try:
                        with open(os.path.join(self.workdir, "worker-%d.err" % i), "w") as f:
                            f.write(traceback.format_exc())
                    except Exception:  # noqa
                        pass
                finally:
                    os._exit(code)
            os.close(rw)
            os.close(gr)
            req_r[i], grant_w[i], pids[i] = rr, gw, pid
        bufs = {i: b"" for i in range(n)}
        pending = {}  # worker -> (op, path) blocked at a scheduling point
        running = set(range(n))  # workers executing private code (not blocked, not exited)
        exits = {}
        points, ops = [], []
        last = None
        step = 0

        def pump(block_on):
            """Read messages until no worker in `block_on` is still running private code."""
            while any(i in running for i in block_on):
                fds = [req_r[i] for i in block_on if i in running]
                rl, _, _ = select.select(fds, [], [], self.timeout)
                if not rl:
                    return False
                for fd in rl:
                    i = next(k for k, v in req_r.items() if v == fd)
                    data = os.read(fd, 65536)
                    if not data:
                        running.discard(i)
                        _, st = os.waitpid(pids[i], 0)
                        exits[i] = st
                        continue
                    bufs[i] += data
                    while b"\n" in bufs[i]:
                        line, bufs[i] = bufs[i].split(b"\n", 1)
                        msg = json.loads(line.decode())
                        if msg[0] == "op":
                            pending[i] = (msg[1], msg[2])
                            running.discard(i)
                        elif msg[0] == "done":
                            ops.append((i, self._granted[0], self._granted[1], msg[1]))
            return True

        self._granted = None
        ok = pump(range(n))
        deadlock = not ok
        while ok and pending:
            enabled = sorted(pending)
            if step < len(prefix):
                choice = prefix[step]
                if choice not in enabled:
                    raise RuntimeError("schedule diverged: step %d wants worker %d, enabled %r" % (step, choice, enabled))
            elif policy is not None:
                choice = policy(enabled, last, pending)
            else:
                choice = last if last in enabled else enabled[0]
            points.append((tuple(enabled), choice, last, dict(pending)))
            step += 1
            self._granted = pending.pop(choice)
            running.add(choice)
            os.write(grant_w[choice], b"g")
            last = choice
            # the granted worker performs the op ("done"), then runs to its next point or exit
            ok = pump([choice])
            if not ok:
                deadlock = True
        for i in range(n):
            if i not in exits:
                try:
                    os.kill(pids[i], signal.SIGKILL)
                except ProcessLookupError:
                    pass
                _, st = os.waitpid(pids[i], 0)
                exits[i] = st if not deadlock else -1
        for fd in list(req_r.values()) + list(grant_w.values()):
            try:
                os.close(fd)
            except OSError:
                pass
        return {"points": points, "ops": ops, "exits": exits, "deadlock": deadlock}


def _related(pa, pb):
    if "\x00" in pa or "\x00" in pb:  # two-path operations: related if any pair of paths is
        return any(_related(x, y) for x in pa.split("\x00") for y in pb.split("\x00"))
    if pa == pb:
        return True
    a = pa.rstrip("/") + "/"
    b = pb.rstrip("/") + "/"
    if pa == ".":
        return True
    if pb == ".":
        return True
    return a.startswith(b) or b.startswith(a)


def dependent(a, b):
    """Two operations (op, path) are dependent iff their paths are equal or one is an
    ancestor of the other, and at least one of them mutates."""
    return _related(a[1], b[1]) and (a[0] in MUTATING or b[0] in MUTATING)


def explore(make_execution, check, preemption_bound=None, max_executions=5000):
    """Stateless DFS over schedules with sleep sets (Godefroid).

    A transition is (worker, pending op); two transitions of different workers
    are independent unless `dependent`.  make_execution() -> (Execution,
    cleanup); check(result, exec, schedule) is called for every complete,
    non-redundant execution.  Returns a stats dict.
    """
    stats = {"executions": 0, "redundant": 0, "max_points": 0, "capped": False, "schedules": 0}
    # stack entries: (prefix choices, sleep set at the end of the prefix as {worker: op})
    stack = [([], {})]
    while stack:
        prefix, sleep0 = stack.pop()
        if stats["executions"] >= max_executions:
            stats["capped"] = True
            break
        ex, cleanup = make_execution()
        trace = []  # per point at/after len(prefix): (sleep before choosing, enabled, pending)
        state = {"sleep": dict(sleep0), "cut": None, "k": 0}

        def policy(enabled, last, pending):
            k = state["k"]
            state["k"] += 1
            z = state["sleep"]
            # sleeping entries stay valid only while that worker's pending op is unchanged
            z = {w: op for w, op in z.items() if w in pending and tuple(pending[w]) == tuple(op)}
            cands = [e for e in enabled if e not in z]
            if not cands:
                if state["cut"] is None:
                    state["cut"] = k
                choice = last if last in enabled else enabled[0]
            else:
                choice = last if last in cands else cands[0]
            trace.append((dict(z), tuple(enabled), {w: tuple(o) for w, o in pending.items()}, choice))
            cop = tuple(pending[choice])
            state["sleep"] = {w: op for w, op in z.items() if w != choice and not dependent(op, cop)}
            return choice

        try:
            res = ex.run(prefix, policy)
            stats["executions"] += 1
            sched = tuple(p[1] for p in res["points"])
            stats["max_points"] = max(stats["max_points"], len(sched))
            if state["cut"] is None:
                stats["schedules"] += 1
                check(res, ex, sched)
            else:
                stats["redundant"] += 1
        finally:
            cleanup()
        # preemption counts along the executed schedule
        preempt = 0
        pre_counts = []
        for enabled, chosen, last, pend in res["points"]:
            pre_counts.append(preempt)
            if last is not None and last in enabled and chosen != last:
                preempt += 1
        limit = len(trace) if state["cut"] is None else state["cut"]
        for j in range(limit):
            k = len(prefix) + j
            z, enabled, pending, chosen = trace[j]
            last = res["points"][k][2]
            explored = {chosen: pending[chosen]}
            for alt in enabled:
                if alt == chosen or alt in z:
                    continue
                cost = pre_counts[k] + (1 if (last is not None and last in enabled and alt != last) else 0)
                if preemption_bound is not None and cost > preemption_bound:
                    continue
                aop = pending[alt]
                zz = dict(z)
                zz.update(explored)
                new_sleep = {w: op for w, op in zz.items() if w != alt and not dependent(op, aop)}
                stack.append(([p[1] for p in res["points"][:k]] + [alt], new_sleep))
                explored[alt] = aop
    return stats
