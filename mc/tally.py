"""Mergeable result accumulator shared by every driver."""
import collections
import hashlib
import json

MAX_VIOLATIONS_KEPT = 8
MAX_SAMPLES_KEPT = 6


def stable_hash(obj):
    """Process-independent hash of a JSON-able / repr-able canonical form."""
    if not isinstance(obj, (bytes, bytearray)):
        obj = repr(obj).encode("utf-8", "backslashreplace")
    return hashlib.blake2b(obj, digest_size=10).digest()


class Tally(object):
    """Counters, distinct-sets, violations, known findings and samples.

    Instances are returned by pool workers and merged; everything in them is
    plain data so that they pickle.
    """

    def __init__(self):
        self.n = collections.Counter()  # named counters
        self.hist = collections.defaultdict(collections.Counter)  # named histograms
        self.sets = collections.defaultdict(set)  # named distinct-sets (hashes)
        self.violations = []  # [{"what":..., "case":...}]
        self.violation_count = 0
        self.known = collections.defaultdict(lambda: {"count": 0, "examples": []})
        self.samples = collections.defaultdict(list)
        self.errors = []  # harness errors (exit 2)
        self.extra = None  # driver-specific payload carried back from a worker (not merged)

    # -- recording -------------------------------------------------------
    def count(self, name, k=1):
        self.n[name] += k

    def outcome(self, histname, key, k=1):
        self.hist[histname][key] += k

    def distinct(self, setname, canonical):
        h = stable_hash(canonical)
        s = self.sets[setname]
        if h in s:
            return False
        s.add(h)
        return True

    def violation(self, what, case):
        self.violation_count += 1
        if len(self.violations) < MAX_VIOLATIONS_KEPT:
            self.violations.append({"what": what, "case": case})

    def known_finding(self, fid, example=None):
        k = self.known[fid]
        k["count"] += 1
        if example is not None and len(k["examples"]) < 3:
            k["examples"].append(example)

    def sample(self, kind, case):
        if len(self.samples[kind]) < MAX_SAMPLES_KEPT:
            self.samples[kind].append(case)

    def error(self, msg):
        if len(self.errors) < 20:
            self.errors.append(msg)
        self.n["harness_errors"] += 1

    # -- merging ---------------------------------------------------------
    def merge(self, other):
        self.n.update(other.n)
        for k, v in other.hist.items():
            self.hist[k].update(v)
        for k, v in other.sets.items():
            self.sets[k] |= v
        self.violation_count += other.violation_count
        for v in other.violations:
            if len(self.violations) < MAX_VIOLATIONS_KEPT:
                self.violations.append(v)
        for fid, k in other.known.items():
            mine = self.known[fid]
            mine["count"] += k["count"]
            for e in k["examples"]:
                if len(mine["examples"]) < 3:
                    mine["examples"].append(e)
        for kind, lst in other.samples.items():
            for s in lst:
                if len(self.samples[kind]) < MAX_SAMPLES_KEPT:
                    self.samples[kind].append(s)
        self.errors.extend(other.errors[: max(0, 20 - len(self.errors))])
        return self

    def __getstate__(self):
        d = dict(self.__dict__)
        d["hist"] = {k: dict(v) for k, v in self.hist.items()}
        d["sets"] = dict(self.sets)
        d["known"] = {k: v for k, v in self.known.items()}
        d["samples"] = dict(self.samples)
        return d

    def __setstate__(self, d):
        self.__init__()
        self.n.update(d["n"])
        for k, v in d["hist"].items():
            self.hist[k].update(v)
        for k, v in d["sets"].items():
            self.sets[k] = v
        self.violations = d["violations"]
        self.violation_count = d["violation_count"]
        for k, v in d["known"].items():
            self.known[k] = v
        for k, v in d["samples"].items():
            self.samples[k] = v
        self.errors = d["errors"]
        self.extra = d.get("extra")

    def ndistinct(self, setname):
        return len(self.sets.get(setname, ()))

    def all_samples(self, limit=8):
        out = []
        for kind in sorted(self.samples):
            for s in self.samples[kind]:
                out.append({"kind": kind, "case": s})
        # round-robin-ish cut
        return out[:limit] if len(out) > limit else out


def jsonable(x):
    """Best-effort conversion of a case to JSON-able plain data."""
    if isinstance(x, (bytes, bytearray)):
        return {"hex": bytes(x).hex()}
    if isinstance(x, dict):
        return {str(k): jsonable(v) for k, v in x.items()}
    if isinstance(x, (list, tuple)):
        return [jsonable(v) for v in x]
    if isinstance(x, (set, frozenset)):
        return sorted((jsonable(v) for v in x), key=repr)
    if isinstance(x, (str, int, float, bool)) or x is None:
        return x
    return repr(x)


def dumps(x):
    return json.dumps(jsonable(x), sort_keys=True)
