"""./check entry point: runs one property driver, writes evidence, prints verdict lines."""
import argparse
import hashlib
import importlib
import json
import os
import sys
import time
import traceback

import mc
from mc.tally import Tally, jsonable

# Runs against a scratch tree (VERIF_REPO) must not overwrite the committed evidence.
EVIDENCE_DIR = os.path.join(mc.VERIF_DIR, "evidence-scratch" if (os.environ.get("VERIF_REPO") or os.environ.get("VERIF_SEEDED_EVAL")) else "evidence")
REPLAY_DIR = os.path.join(mc.VERIF_DIR, "replays")
KNOWN_FILE = os.path.join(mc.VERIF_DIR, "known_findings.json")


class Ctx(object):
    def __init__(self, prop, tier, seed):
        self.prop = prop
        self.tier = tier
        self.quick = tier == "quick"
        self.seed = seed
        self.t0 = time.time()

    def elapsed(self):
        return time.time() - self.t0


def load_known():
    try:
        with open(KNOWN_FILE) as f:
            data = json.load(f)
    except FileNotFoundError:
        return {}
    return {k["id"]: k for k in data.get("known", [])}


def write_replay(prop, driver_name, v):
    blob = json.dumps(jsonable(v["case"]), sort_keys=True)
    h = hashlib.sha1(blob.encode()).hexdigest()[:16]
    d = os.path.join(REPLAY_DIR, prop)
    os.makedirs(d, exist_ok=True)
    path = os.path.join(d, h + ".json")
    with open(path, "w") as f:
        json.dump(
            {"property": prop, "driver": driver_name, "what": v["what"], "case": jsonable(v["case"])},
            f,
            indent=1,
            sort_keys=True,
        )
    return path


def write_evidence(prop, level, ctx, coverage, violations, assumptions):
    os.makedirs(EVIDENCE_DIR, exist_ok=True)
    ev = {
        "property_id": prop,
        "tier": ctx.tier,
        "seed": ctx.seed,
        "level": level,
        "coverage": jsonable(coverage),
        "assumptions": assumptions,
        "wall_s": round(ctx.elapsed(), 2),
        "violations": violations,
    }
    path = os.path.join(EVIDENCE_DIR, prop + ".json")
    tmp = path + ".tmp"
    with open(tmp, "w") as f:
        json.dump(ev, f, indent=1, sort_keys=True)
        f.write("\n")
    os.replace(tmp, path)
    return path


def check_evidence_shape(level, cov):
    """Local mirror of EVIDENCE.schema.json's per-level requirements."""
    problems = []
    if not isinstance(cov.get("samples"), list) or not cov["samples"]:
        problems.append("samples missing")
    if level == "model_checking":
        for k in ("states", "transitions", "traces_validated_against_impl"):
            if not isinstance(cov.get(k), int):
                problems.append(k + " missing")
        if cov.get("states", 0) < 1 or cov.get("transitions", 0) < 1:
            problems.append("states/transitions < 1")
    else:
        if cov.get("evaluations", 0) < 1:
            problems.append("evaluations < 1")
        if cov.get("distinct_nontrivial", 0) < 2:
            problems.append("distinct_nontrivial < 2")
        if not isinstance(cov.get("rule"), str):
            problems.append("rule missing")
    return problems


def main(argv=None):
    ap = argparse.ArgumentParser()
    ap.add_argument("prop")
    ap.add_argument("--tier", default=os.environ.get("VERIF_TIER") or "quick", choices=["quick", "thorough"])
    ap.add_argument("--replay", default=None)
    ap.add_argument("--seed", type=int, default=int(os.environ.get("VERIF_SEED") or 0))
    args = ap.parse_args(argv)
    prop = args.prop.upper()
    os.environ.setdefault("PYTHONHASHSEED", "0")
    try:
        drv = importlib.import_module("props." + prop.lower())
    except Exception:
        traceback.print_exc()
        print("HARNESS-ERROR property=%s cannot import driver" % prop)
        return 2

    if args.replay:
        with open(args.replay) as f:
            rp = json.load(f)
        obs = []
        for _ in range(2):
            obs.append(drv.replay_case(rp["case"]))
        if json.dumps(jsonable(obs[0]), sort_keys=True) != json.dumps(jsonable(obs[1]), sort_keys=True):
            print("HARNESS-ERROR property=%s replay is nondeterministic: %r vs %r" % (prop, obs[0], obs[1]))
            return 2
        problems = obs[0]
        if problems:
            print("replay reproduces: %s" % (json.dumps(jsonable(problems))[:2000],))
            print("VIOLATION property=%s replay=%s" % (prop, args.replay))
            return 1
        print("replay passes (no violation on this tree)")
        return 0

    ctx = Ctx(prop, args.tier, args.seed)
    try:
        tally, coverage = drv.run(ctx)
    except Exception:
        traceback.print_exc()
        print("HARNESS-ERROR property=%s driver crashed" % prop)
        return 2

    known = load_known()
    exit_code = 0
    # Known findings: only ids listed in the committed file are accepted.
    kf_report = {}
    for fid, k in sorted(tally.known.items()):
        if fid in known and known[fid]["property"].find(prop) >= 0:
            print(
                "KNOWN-FINDING: property=%s %s -- %s (%d cases this run)"
                % (prop, fid, known[fid]["what"], k["count"])
            )
            kf_report[fid] = {"count": k["count"], "examples": k["examples"]}
        else:
            for e in k["examples"]:
                tally.violation("unlisted finding %s" % fid, e)
    paths = []
    for v in tally.violations:
        p = write_replay(prop, drv.__name__, v)
        paths.append(p)
    seen = set()
    for v, p in zip(tally.violations, paths):
        if p in seen:
            continue
        seen.add(p)
        print("  what: %s" % (str(v["what"])[:600],))
        print("VIOLATION property=%s replay=%s" % (prop, p))
        exit_code = 1
    if tally.violation_count > len(tally.violations):
        print("  (%d further violations not written)" % (tally.violation_count - len(tally.violations)))
    if tally.violation_count and not exit_code:
        exit_code = 1

    coverage = dict(coverage)
    coverage.setdefault("samples", tally.all_samples())
    coverage["counters"] = dict(tally.n)
    coverage["outcomes"] = {k: dict(sorted(v.items(), key=lambda kv: str(kv[0]))) for k, v in tally.hist.items()}
    coverage["distinct_sets"] = {k: len(v) for k, v in tally.sets.items()}
    coverage["known_findings"] = kf_report
    coverage["nproc"] = int(os.environ.get("VERIF_NPROC", "0")) or min(16, os.cpu_count() or 1)
    assumptions = list(getattr(drv, "ASSUMPTIONS", []))
    write_evidence(prop, drv.LEVEL, ctx, coverage, tally.violation_count, assumptions)

    if tally.errors:
        for e in tally.errors[:5]:
            print("HARNESS-ERROR property=%s %s" % (prop, e))
        if exit_code == 0:
            exit_code = 2
    problems = check_evidence_shape(drv.LEVEL, coverage)
    if problems and exit_code == 0:
        print("HARNESS-ERROR property=%s evidence incomplete: %s" % (prop, problems))
        exit_code = 2
    summ = {k: coverage.get(k) for k in ("states", "transitions", "evaluations", "distinct_nontrivial", "exhaustive") if k in coverage}
    print("%s %s tier=%s seed=%d %s wall=%.1fs exit=%d" % (prop, "HELD" if exit_code == 0 else "FAILED", ctx.tier, ctx.seed, summ, ctx.elapsed(), exit_code))
    return exit_code


if __name__ == "__main__":
    sys.exit(main())
