"""Bounded-exhaustive exploration engine for /verif (see DESIGN.md section 2)."""
import os
import sys

VERIF_DIR = os.path.dirname(os.path.dirname(os.path.abspath(__file__)))
REPO_DIR = os.environ.get("VERIF_REPO") or "/repo"

# The repository is installed in editable mode into /venv, so `import
# vc2_conformance` reads /repo's working tree.  VERIF_REPO points the checks at
# another tree (scratch copies used by the seeded-change demos).
if os.environ.get("VERIF_REPO"):
    sys.path.insert(0, os.environ["VERIF_REPO"])
if VERIF_DIR not in sys.path:
    sys.path.insert(0, VERIF_DIR)

sys.dont_write_bytecode = True
