"""Driving the real validator / deserialiser in-process, with resource bounds."""
import contextlib
import copy
import io
import sys

import mc  # noqa: F401  (sets sys.path)


class OutOfScope(BaseException):
    """Stream declares sizes above the resource bound (not a verdict)."""


LIMITS = {
    "max_luma_area": 64 * 64,
    "max_dim": 256,
    "max_depth_bits": 32,
    "max_dwt_total": 6,
    "max_slices": 256,
    "max_padding": 1 << 16,
}

_installed = False


def _mod(name):
    __import__(name)
    return sys.modules[name]


def install_decoder_limits():
    """Wrap set_coding_parameters / slice_parameters in the decoder namespaces.

    Pure addition of a guard after the real function ran: the real function's
    behaviour (including its exceptions) is untouched.
    """
    global _installed
    if _installed:
        return
    _installed = True
    ps = _mod("vc2_conformance.decoder.picture_syntax")
    fs = _mod("vc2_conformance.decoder.fragment_syntax")

    real_sp = ps.slice_parameters

    def slice_parameters(state):
        # (checked here rather than at the sequence header: header-only streams of any declared size are cheap)
        lw, lh = state["luma_width"], state["luma_height"]
        if lw * lh > LIMITS["max_luma_area"] or lw > LIMITS["max_dim"] or lh > LIMITS["max_dim"]:
            raise OutOfScope("picture size")
        if state["luma_depth"] > LIMITS["max_depth_bits"] or state["color_diff_depth"] > LIMITS["max_depth_bits"]:
            raise OutOfScope("depth")
        if state["dwt_depth"] + state["dwt_depth_ho"] > LIMITS["max_dwt_total"]:
            raise OutOfScope("dwt depth")
        real_sp(state)
        if state["slices_x"] * state["slices_y"] > LIMITS["max_slices"]:
            raise OutOfScope("slices")
        # (slice sizes, prefix bytes and the slice size scaler are deliberately NOT bounded: whatever
        # they declare, the reader must hit the end of the (small) file and report it)

    ps.slice_parameters = slice_parameters
    # transform_parameters looks slice_parameters up in its own module's globals (picture_syntax),
    # and fragment_syntax imports transform_parameters from there, so one wrap suffices.


class Verdict(object):
    __slots__ = ("kind", "exc", "state", "pictures", "tell")

    def __init__(self, kind, exc, state, pictures):
        self.kind = kind  # "accept" | "reject" | "crash" | "oos"
        self.exc = exc
        self.state = state
        self.pictures = pictures

    @property
    def label(self):
        if self.kind == "accept":
            return "accept"
        if self.kind == "oos":
            return "oos"
        return self.kind + ":" + type(self.exc).__name__


def validate(data, limits=True, keep_pictures=True, stop_at_eof_state=False):
    """Run the real validator on `data`. Never raises (except KeyboardInterrupt/Watchdog)."""
    from vc2_conformance.pseudocode.state import State
    from vc2_conformance import decoder

    if limits:
        install_decoder_limits()
    pictures = []

    def cb(picture, video_parameters, picture_coding_mode):
        if keep_pictures:
            pictures.append((copy.deepcopy(picture), dict(video_parameters), int(picture_coding_mode)))
        else:
            pictures.append(picture["pic_num"])

    state = State(_output_picture_callback=cb)
    f = io.BytesIO(bytes(data))
    try:
        decoder.init_io(state, f)
        decoder.parse_stream(state)
        return Verdict("accept", None, state, pictures)
    except decoder.ConformanceError as e:
        return Verdict("reject", e, state, pictures)
    except OutOfScope as e:
        return Verdict("oos", e, state, pictures)
    except Exception as e:  # noqa
        return Verdict("crash", e, state, pictures)


@contextlib.contextmanager
def permissive_levels(patterns=None):
    """Swap LEVEL_CONSTRAINTS in place for a single all-'any' column (as the
    test suite's alternative_level_constraints does); optionally override the
    ordering patterns {level: regex}.  The real ordering patterns are kept
    otherwise."""
    from vc2_conformance.level_constraints import LEVEL_CONSTRAINTS, LEVEL_SEQUENCE_RESTRICTIONS, LevelSequenceRestrictions
    from vc2_conformance.constraint_table import AnyValue
    from vc2_data_tables import Levels

    orig_c = list(LEVEL_CONSTRAINTS)
    orig_r = dict(LEVEL_SEQUENCE_RESTRICTIONS)
    keys = list(orig_c[0].keys())
    try:
        del LEVEL_CONSTRAINTS[:]
        LEVEL_CONSTRAINTS.append({k: AnyValue() for k in keys})
        if patterns:
            for lv, rx in patterns.items():
                LEVEL_SEQUENCE_RESTRICTIONS[Levels(lv)] = LevelSequenceRestrictions(
                    sequence_restriction_explanation="verif override", sequence_restriction_regex=rx
                )
        yield
    finally:
        del LEVEL_CONSTRAINTS[:]
        LEVEL_CONSTRAINTS.extend(orig_c)
        LEVEL_SEQUENCE_RESTRICTIONS.clear()
        LEVEL_SEQUENCE_RESTRICTIONS.update(orig_r)


@contextlib.contextmanager
def permissive_patterns():
    """Swap every level's data-unit ordering pattern for '.*' (value tables untouched)."""
    from vc2_conformance.level_constraints import LEVEL_SEQUENCE_RESTRICTIONS, LevelSequenceRestrictions

    orig = dict(LEVEL_SEQUENCE_RESTRICTIONS)
    try:
        for lv in list(orig):
            LEVEL_SEQUENCE_RESTRICTIONS[lv] = LevelSequenceRestrictions(sequence_restriction_explanation="verif: any order", sequence_restriction_regex=".*")
        yield
    finally:
        LEVEL_SEQUENCE_RESTRICTIONS.clear()
        LEVEL_SEQUENCE_RESTRICTIONS.update(orig)


def deserialise(data, limits=True):
    """Run the real bitstream Deserialiser to completion on data.

    Returns (kind, context_or_exc) with kind in parsed|eof|error|oos.
    """
    from vc2_conformance import bitstream as bs

    f = io.BytesIO(bytes(data))
    r = bs.BitstreamReader(f)
    try:
        with bs.Deserialiser(r) as des:
            bs.parse_stream(des, bs_state())
        return "parsed", des.context
    except OutOfScope as e:
        return "oos", e
    except EOFError as e:
        return "eof", e
    except Exception as e:  # noqa
        return "error", e


def bs_state():
    from vc2_conformance.pseudocode.state import State

    return State()


import contextlib as _contextlib
import sys as _sys


@_contextlib.contextmanager
def lifted_int_limit():
    """For harness-side code that must parse / format integers of any size (reading back JSON
    metadata written by a command).  Library calls are NOT made under this."""
    if not hasattr(_sys, "set_int_max_str_digits"):
        yield
        return
    old = _sys.get_int_max_str_digits()
    _sys.set_int_max_str_digits(0)
    try:
        yield
    finally:
        _sys.set_int_max_str_digits(old)


@_contextlib.contextmanager
def fresh_process_int_limit():
    """Run a command's main() as a fresh interpreter would: with CPython's default limit on
    int <-> str conversion (4300 digits) in force on entry, whatever earlier in-process calls
    did to this process-wide setting.  The harness's own setting is restored afterwards."""
    if not hasattr(_sys, "set_int_max_str_digits"):
        yield
        return
    old = _sys.get_int_max_str_digits()
    _sys.set_int_max_str_digits(4300)
    try:
        yield
    finally:
        _sys.set_int_max_str_digits(old)
