"""Index-addressable finite spaces and deviation enumerators."""
import itertools


def product_size(domains):
    n = 1
    for d in domains:
        n *= len(d)
    return n


def product_at(domains, i):
    """The i-th element of itertools.product(*domains) (last domain fastest)."""
    out = []
    for d in reversed(domains):
        i, r = divmod(i, len(d))
        out.append(d[r])
    return tuple(reversed(out))


def product_shard(domains, offset, stride):
    n = product_size(domains)
    for i in range(offset, n, stride):
        yield i, product_at(domains, i)


def sequences_upto(alphabet, maxlen, minlen=0):
    for n in range(minlen, maxlen + 1):
        for s in itertools.product(alphabet, repeat=n):
            yield s


def count_sequences_upto(k, maxlen, minlen=0):
    return sum(k ** n for n in range(minlen, maxlen + 1))


def bitstrings(n):
    """All bit tuples of exactly n bits, in numeric order."""
    for v in range(1 << n):
        yield tuple((v >> (n - 1 - i)) & 1 for i in range(n))


def one_at_a_time(defaults, domains):
    """All assignments differing from `defaults` in at most one dimension.

    defaults: dict name->value; domains: dict name->list of values.
    """
    yield dict(defaults)
    for k in sorted(domains):
        for v in domains[k]:
            if v != defaults[k]:
                d = dict(defaults)
                d[k] = v
                yield d


def pairwise_full(defaults, domains):
    """Every pair of dimensions crossed in full, the rest at defaults."""
    seen = set()
    keys = sorted(domains)
    for a, b in itertools.combinations(keys, 2):
        for va in domains[a]:
            for vb in domains[b]:
                d = dict(defaults)
                d[a] = va
                d[b] = vb
                key = tuple(sorted((k, repr(v)) for k, v in d.items()))
                if key not in seen:
                    seen.add(key)
                    yield d
