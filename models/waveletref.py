"""Reference lifting wavelet transforms (SMPTE ST 2042-1, 15.4), repo-independent.

Nothing here imports `vc2_conformance`; the filter parameter tables come from the
separate `vc2_data_tables` package (trusted, not under test).

The reference is written in *polyphase* form instead of the in-place, interleaved
form of the standard's pseudocode: a signal A of even length 2N is split into
E[n] = A[2n] and O[n] = A[2n+1].  A lifting stage (L, D, taps, S) of the synthesis
filter updates one phase from the other:

  even-updating stage:   E[n] (+/-)= (sum_j taps[j] * O[clamp(n + D + j - 1)] + r) >> S
  odd-updating stage:    O[n] (+/-)= (sum_j taps[j] * E[clamp(n + D + j)]     + r) >> S

with j = 0..L-1, clamp(m) = min(max(m, 0), N-1) (edge extension: the interleaved
positions 2(n+i)-1 are clamped to [1, 2N-1] and 2(n+i) to [0, 2N-2]), r = 2**(S-1)
if S > 0 else 0, and >> an arithmetic (floor) shift.  Because a stage reads only
the phase it does not write, the update is order-independent.  Synthesis applies
the stages in table order; analysis applies them in reverse order with the sign of
each update flipped, which undoes synthesis exactly (each stage is a bijection for
fixed other phase).

2-D (15.4.1-15.4.3): one 2-D analysis level = left-shift every sample by the
filter bit shift of the *horizontal* filter, analyse every row with the horizontal
filter, then every column with the vertical filter, then de-interleave into
LL/HL/LH/HH; a horizontal-only level = shift, rows only, de-interleave into L/H.
Synthesis is the mirror image (columns before rows, rounding right shift last).
"""
from vc2_data_tables import LIFTING_FILTERS, LiftingFilterTypes

from models import sliceref

_EVEN_ADD = LiftingFilterTypes.even_add_odd
_EVEN_SUB = LiftingFilterTypes.even_subtract_odd
_ODD_ADD = LiftingFilterTypes.odd_add_even
_ODD_SUB = LiftingFilterTypes.odd_subtract_even


def _stage(E, O, stage, invert):
    n_half = len(E)
    t = stage.lift_type
    if t in (_EVEN_ADD, _EVEN_SUB):
        dst, src, shift_idx = E, O, stage.D - 1
        add = t == _EVEN_ADD
    elif t in (_ODD_ADD, _ODD_SUB):
        dst, src, shift_idx = O, E, stage.D
        add = t == _ODD_ADD
    else:
        raise ValueError(t)
    if invert:
        add = not add
    rnd = (1 << (stage.S - 1)) if stage.S > 0 else 0
    top = n_half - 1
    upd = []
    for n in range(n_half):
        acc = rnd
        for j, tap in enumerate(stage.taps):
            m = n + shift_idx + j
            if m < 0:
                m = 0
            elif m > top:
                m = top
            acc += tap * src[m]
        upd.append(acc >> stage.S)
    for n in range(n_half):
        dst[n] = dst[n] + upd[n] if add else dst[n] - upd[n]


def synthesis_1d(a, filter_index):
    """Returns a new list: 1-D synthesis of the interleaved signal a (even length)."""
    if len(a) % 2:
        raise ValueError("odd length")
    E, O = list(a[0::2]), list(a[1::2])
    for stage in LIFTING_FILTERS[filter_index].stages:
        if len(stage.taps) != stage.L:
            raise AssertionError("tap count")
        _stage(E, O, stage, False)
    out = [0] * len(a)
    out[0::2], out[1::2] = E, O
    return out


def analysis_1d(a, filter_index):
    if len(a) % 2:
        raise ValueError("odd length")
    E, O = list(a[0::2]), list(a[1::2])
    for stage in reversed(LIFTING_FILTERS[filter_index].stages):
        _stage(E, O, stage, True)
    out = [0] * len(a)
    out[0::2], out[1::2] = E, O
    return out


def bit_shift(filter_index_ho):
    return LIFTING_FILTERS[filter_index_ho].filter_bit_shift


def pad(pic, dwt_depth, dwt_depth_ho):
    """Edge-replicating padding (inverse of 15.4.5). Returns a new picture."""
    h, w = len(pic), len(pic[0])
    pw, ph = sliceref.padded_dims(w, h, dwt_depth, dwt_depth_ho)
    rows = [list(r) + [r[-1]] * (pw - w) for r in pic]
    while len(rows) < ph:
        rows.append(list(rows[h - 1]))
    return rows


def _transpose(a):
    return [list(c) for c in zip(*a)]


def analysis_2d(pic, wavelet_index, wavelet_index_ho, dwt_depth, dwt_depth_ho):
    """Forward transform of an already padded picture -> {level: {orient: band}}."""
    sh = bit_shift(wavelet_index_ho)
    out = {}
    dc = [list(r) for r in pic]
    level = dwt_depth + dwt_depth_ho
    for _ in range(dwt_depth):
        rows = [analysis_1d([v << sh for v in r], wavelet_index_ho) for r in dc]
        cols = [analysis_1d(c, wavelet_index) for c in _transpose(rows)]
        full = _transpose(cols)
        out[level] = {
            "HL": [r[1::2] for r in full[0::2]],
            "LH": [r[0::2] for r in full[1::2]],
            "HH": [r[1::2] for r in full[1::2]],
        }
        dc = [r[0::2] for r in full[0::2]]
        level -= 1
    for _ in range(dwt_depth_ho):
        rows = [analysis_1d([v << sh for v in r], wavelet_index_ho) for r in dc]
        out[level] = {"H": [r[1::2] for r in rows]}
        dc = [r[0::2] for r in rows]
        level -= 1
    out[0] = {("LL" if dwt_depth_ho == 0 else "L"): dc}
    return out


def _interleave(a, b):
    out = [0] * (2 * len(a))
    out[0::2], out[1::2] = a, b
    return out


def synthesis_2d(coeffs, wavelet_index, wavelet_index_ho, dwt_depth, dwt_depth_ho):
    """Inverse transform (15.4.1) -> padded picture."""
    sh = bit_shift(wavelet_index_ho)
    rnd = (1 << (sh - 1)) if sh > 0 else 0
    dc = [list(r) for r in coeffs[0]["LL" if dwt_depth_ho == 0 else "L"]]
    level = 1
    for _ in range(dwt_depth_ho):
        H = coeffs[level]["H"]
        rows = [synthesis_1d(_interleave(l, h), wavelet_index_ho) for l, h in zip(dc, H)]
        dc = [[(v + rnd) >> sh for v in r] for r in rows]
        level += 1
    for _ in range(dwt_depth):
        b = coeffs[level]
        full = []
        for ll, hl, lh, hh in zip(dc, b["HL"], b["LH"], b["HH"]):
            full.append(_interleave(ll, hl))
            full.append(_interleave(lh, hh))
        cols = [synthesis_1d(c, wavelet_index) for c in _transpose(full)]
        rows = [synthesis_1d(r, wavelet_index_ho) for r in _transpose(cols)]
        dc = [[(v + rnd) >> sh for v in r] for r in rows]
        level += 1
    return dc
