"""Reference model for C17: value sets, constraint tables, CSV cells.

Written from the property statement only; imports nothing from the repository.

* A value set is a plain Python ``frozenset`` or the sentinel ``ANY`` (the
  universal set).
* A constraint table is a list of columns; a column is a plain dict
  ``key -> frozenset | ANY``.  Only tables without empty ("catch-all") columns
  are modelled.
"""

ANY = "ANY"


# -- value sets ----------------------------------------------------------
def empty():
    return frozenset()


def add_value(s, v):
    if s is ANY:
        return ANY
    return s | {v}


def add_range(s, lo, hi):
    """Inclusive integer range."""
    if s is ANY:
        return ANY
    return s | set(range(lo, hi + 1))


def union(a, b):
    if a is ANY or b is ANY:
        return ANY
    return a | b


def contains(s, v):
    return True if s is ANY else (v in s)


def disjoint(a, b):
    """No common element.  ANY shares an element with every non-empty set."""
    if a is ANY and b is ANY:
        return False
    if a is ANY:
        return len(b) == 0
    if b is ANY:
        return len(a) == 0
    return a.isdisjoint(b)


def from_args(args):
    """Model of a constructor call: items are values or (lo, hi) tuples."""
    s = empty()
    for a in args:
        if isinstance(a, tuple):
            s = add_range(s, a[0], a[1])
        else:
            s = add_value(s, a)
    return s


# -- tables --------------------------------------------------------------
def column_matches(col, values):
    """Every given key is constrained by the column and its value is allowed."""
    for k, v in values.items():
        if k not in col:
            return False
        if not contains(col[k], v):
            return False
    return True


def is_allowed(table, values):
    for col in table:
        if len(col) == 0:
            raise ValueError("catch-all columns are outside the model")
        if column_matches(col, values):
            return True
    return False


def allowed_values(table, key, values, universe):
    """({v in universe allowed for key given values}, is_any).

    By the property: v is allowed exactly when values + {key: v} is an allowed
    combination.  ``is_any`` tells whether some column compatible with
    ``values`` leaves ``key`` completely unconstrained-by-value (ANY).
    """
    out = set()
    for v in universe:
        a = dict(values)
        a[key] = v
        if is_allowed(table, a):
            out.add(v)
    is_any = False
    for col in table:
        if column_matches(col, values) and col.get(key) is ANY:
            is_any = True
    return frozenset(out), is_any


def first_rejected(table, seq):
    """Feed (key, value) pairs one at a time.

    Returns the index of the first pair whose prefix (as a dict) is not an
    allowed combination, or None when every prefix is allowed.
    """
    cur = {}
    for i, (k, v) in enumerate(seq):
        cur[k] = v
        if not is_allowed(table, cur):
            return i
    return None


# -- CSV cells -----------------------------------------------------------
DITTO = "DITTO"


def parse_cell_text(text):
    """Model of one CSV cell *as written in the file* (already unquoted).

    Returns frozenset, ANY or DITTO.
    """
    t = text.strip()
    if t == '"':
        return DITTO
    if t == "":
        return frozenset()
    if t.lower() == "any":
        return ANY
    out = set()
    for part in t.split(","):
        part = part.strip()
        if part.upper() == "TRUE":
            out.add(True)
        elif part.upper() == "FALSE":
            out.add(False)
        elif "-" in part:
            lo, hi = part.split("-")
            out |= set(range(int(lo), int(hi) + 1))
        else:
            out.add(int(part))
    return frozenset(out)


def csv_table(rows):
    """rows: [(key, [cell text, ...]), ...] -> list of columns (dicts).

    Ditto = the value of the cell to its left (empty set in the first column).
    """
    ncols = max([len(cells) for _, cells in rows] or [0])
    table = [dict() for _ in range(ncols)]
    for key, cells in rows:
        left = frozenset()
        for i, text in enumerate(cells):
            val = parse_cell_text(text)
            if val is DITTO:
                val = left
            table[i][key] = val
            left = val
    return table
