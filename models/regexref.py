"""Reference semantics for the data-unit pattern language (C18, C19, C01).

Independent of vc2_conformance.symbol_re.  Two models:

* the **correct** model: Brzozowski derivatives over an AST
  (`nullable`, `deriv`, `is_empty`) = "prefix of some match";
* the **defect** model for known finding F5: a Thompson NFA built exactly as
  `NFA.from_ast` does but with *undirected* epsilon edges, simulated exactly as
  `Matcher` does.  It exists only to attribute disagreements to F5.

AST nodes (tuples): ("sym", name) ("any",) ("eos",) ("eps",)
("cat", a, b) ("alt", a, b) ("star", a) ("plus", a) ("opt", a)
"""
import re

EMPTY = ("empty",)  # the empty language (only produced by derivatives)
EPS = ("eps",)
ANY = ("any",)
EOS = ("eos",)

WILDCARD = "."
END_OF_SEQUENCE = ""


# ---------------------------------------------------------------------------
# Rendering and parsing
# ---------------------------------------------------------------------------
def render(r, explicit=True):
    """AST -> pattern text, fully parenthesised (no reliance on precedence)."""
    k = r[0]
    if k == "sym":
        return r[1]
    if k == "any":
        return "."
    if k == "eos":
        return "$"
    if k == "eps":
        return "()"  # not used by generators (the language has no explicit epsilon)
    if k == "cat":
        return "%s %s" % (_grp(r[1]), _grp(r[2]))
    if k == "alt":
        return "%s | %s" % (_grp(r[1]), _grp(r[2]))
    if k in ("star", "plus", "opt"):
        return _grp(r[1]) + {"star": "*", "plus": "+", "opt": "?"}[k]
    raise ValueError(r)


def _grp(r):
    if r[0] in ("sym", "any", "eos"):
        return render(r)
    return "(" + render(r) + ")"


_TOKEN = re.compile(r"\s*(?:(\w+)|([.$?*+|()]))")


def parse(text):
    """Independent parser: postfix modifiers bind tightest, then concatenation, then '|'."""
    toks = []
    pos = 0
    text = text.replace("\n", " ").replace("\r", " ").rstrip()
    while pos < len(text):
        m = _TOKEN.match(text, pos)
        if not m:
            raise ValueError("bad pattern text at %d: %r" % (pos, text))
        toks.append(m.group(1) or m.group(2))
        pos = m.end()
    idx = [0]

    def peek():
        return toks[idx[0]] if idx[0] < len(toks) else None

    def alt():
        left = cat()
        while peek() == "|":
            idx[0] += 1
            right = cat()
            left = ("alt", left, right)
        return left

    def cat():
        items = []
        while peek() is not None and peek() not in ("|", ")"):
            items.append(post())
        if not items:
            return EPS
        r = items[-1]
        for it in reversed(items[:-1]):
            r = ("cat", it, r)
        return r

    def post():
        t = peek()
        idx[0] += 1
        if t == "(":
            a = alt()
            if peek() != ")":
                raise ValueError("unmatched ( in %r" % text)
            idx[0] += 1
        elif t == ".":
            a = ANY
        elif t == "$":
            a = EOS
        elif t in ("?", "*", "+", "|", ")"):
            raise ValueError("unexpected %s in %r" % (t, text))
        else:
            a = ("sym", t)
        if peek() in ("?", "*", "+"):
            m = peek()
            idx[0] += 1
            a = ({"?": "opt", "*": "star", "+": "plus"}[m], a)
        return a

    r = alt()
    if idx[0] != len(toks):
        raise ValueError("trailing tokens in %r" % text)
    return r


def size(r):
    return 1 + sum(size(x) for x in r[1:] if isinstance(x, tuple))


def symbols_of(r):
    if r[0] == "sym":
        return {r[1]}
    out = set()
    for x in r[1:]:
        if isinstance(x, tuple):
            out |= symbols_of(x)
    return out


# ---------------------------------------------------------------------------
# Correct model: derivatives
# ---------------------------------------------------------------------------
def nullable(r):
    k = r[0]
    if k in ("eps", "eos", "star", "opt"):
        return True
    if k in ("sym", "any", "empty"):
        return False
    if k == "cat":
        return nullable(r[1]) and nullable(r[2])
    if k == "alt":
        return nullable(r[1]) or nullable(r[2])
    if k == "plus":
        return nullable(r[1])
    raise ValueError(r)


def is_empty(r):
    """True iff the language of r is empty."""
    k = r[0]
    if k == "empty":
        return True
    if k in ("eps", "eos", "sym", "any", "star", "opt"):
        return False
    if k == "cat":
        return is_empty(r[1]) or is_empty(r[2])
    if k == "alt":
        return is_empty(r[1]) and is_empty(r[2])
    if k == "plus":
        return is_empty(r[1])
    raise ValueError(r)


def _cat(a, b):
    if a == EMPTY or b == EMPTY:
        return EMPTY
    if a == EPS:
        return b
    if b == EPS:
        return a
    return ("cat", a, b)


def _alt(a, b):
    if a == EMPTY:
        return b
    if b == EMPTY:
        return a
    if a == b:
        return a
    # canonical order + flattening to keep the derivative state space finite
    items = set()
    for x in (a, b):
        stack = [x]
        while stack:
            y = stack.pop()
            if y[0] == "alt":
                stack.extend(y[1:])
            else:
                items.add(y)
    items = sorted(items, key=repr)
    r = items[-1]
    for it in reversed(items[:-1]):
        r = ("alt", it, r)
    return r


def deriv(r, x):
    """Brzozowski derivative of r by the concrete symbol x."""
    k = r[0]
    if k in ("empty", "eps", "eos"):
        return EMPTY
    if k == "sym":
        return EPS if r[1] == x else EMPTY
    if k == "any":
        return EPS
    if k == "cat":
        d = _cat(deriv(r[1], x), r[2])
        if nullable(r[1]) and not _eos_only_nullable(r[1]):
            return _alt(d, deriv(r[2], x))
        return d
    if k == "alt":
        return _alt(deriv(r[1], x), deriv(r[2], x))
    if k == "star":
        return _cat(deriv(r[1], x), r)
    if k == "plus":
        return _cat(deriv(r[1], x), ("star", r[1]))
    if k == "opt":
        return deriv(r[1], x)
    raise ValueError(r)


def _eos_only_nullable(r):
    """True if r is nullable only by way of '$' (then nothing may follow it).

    '$' matches only at the end of the sequence, so in `a $ b` the b can never
    be reached.  Patterns generated for the checks only use '$' where nothing
    mandatory follows, but the semantics is implemented for completeness.
    """
    k = r[0]
    if k == "eos":
        return True
    if k in ("eps", "star", "opt"):
        return False
    if k in ("sym", "any", "empty"):
        return False
    if k == "cat":
        return nullable(r) and (_eos_only_nullable(r[1]) or _eos_only_nullable(r[2]))
    if k == "alt":
        n1, n2 = nullable(r[1]), nullable(r[2])
        if n1 and n2:
            return _eos_only_nullable(r[1]) and _eos_only_nullable(r[2])
        if n1:
            return _eos_only_nullable(r[1])
        if n2:
            return _eos_only_nullable(r[2])
        return False
    if k == "plus":
        return _eos_only_nullable(r[1])
    raise ValueError(r)


class CorrectMatcher(object):
    """Same interface as symbol_re.Matcher, true regular-expression semantics."""

    def __init__(self, ast):
        self.state = ast

    def copy(self):
        return CorrectMatcher(self.state)

    def would_accept(self, x):
        return not is_empty(deriv(self.state, x))

    def match_symbol(self, x):
        d = deriv(self.state, x)
        if is_empty(d):
            return False
        self.state = d
        return True

    def is_complete(self):
        return nullable(self.state)

    def key(self):
        return self.state


def accepts(ast, seq):
    m = CorrectMatcher(ast)
    for x in seq:
        if not m.match_symbol(x):
            return False
    return m.is_complete()


# ---------------------------------------------------------------------------
# Defect model (F5): Thompson NFA with undirected epsilon edges
# ---------------------------------------------------------------------------
class DefectNFA(object):
    def __init__(self, ast):
        self.eps = []  # node -> set(node)   (undirected)
        self.trans = []  # node -> {symbol: set(node)}
        self.start, self.final = self._build(self._lower(ast))
        self._equiv_cache = {}

    def _node(self):
        self.eps.append(set())
        self.trans.append({})
        return len(self.eps) - 1

    def _eps(self, a, b):
        self.eps[a].add(b)
        self.eps[b].add(a)  # the defect: epsilon transitions are bidirectional

    def _lower(self, r):
        """Lower to the implementation's AST: + -> x x*, ? -> x | None."""
        k = r[0]
        if k == "sym":
            return ("sym", r[1])
        if k == "any":
            return ("sym", WILDCARD)
        if k == "eos":
            return ("sym", END_OF_SEQUENCE)
        if k == "eps":
            return None
        if k == "cat":
            return ("cat", self._lower(r[1]), self._lower(r[2]))
        if k == "alt":
            return ("alt", self._lower(r[1]), self._lower(r[2]))
        if k == "star":
            return ("star", self._lower(r[1]))
        if k == "plus":
            x = self._lower(r[1])
            return ("cat", x, ("star", x))
        if k == "opt":
            return ("alt", self._lower(r[1]), None)
        raise ValueError(r)

    def _build(self, r):
        if r is None:
            n = self._node()
            return n, n
        k = r[0]
        if k == "sym":
            s, f = self._node(), self._node()
            self.trans[s].setdefault(r[1], set()).add(f)
            return s, f
        if k == "cat":
            sa, fa = self._build(r[1])
            sb, fb = self._build(r[2])
            self._eps(fa, sb)
            return sa, fb
        if k == "alt":
            s, f = self._node(), self._node()
            sa, fa = self._build(r[1])
            sb, fb = self._build(r[2])
            self._eps(s, sa)
            self._eps(s, sb)
            self._eps(fa, f)
            self._eps(fb, f)
            return s, f
        if k == "star":
            s, f = self._node(), self._node()
            ss, sf = self._build(r[1])
            self._eps(s, f)
            self._eps(s, ss)
            self._eps(sf, ss)
            self._eps(sf, f)
            return s, f
        raise ValueError(r)

    def equiv(self, n):
        c = self._equiv_cache.get(n)
        if c is None:
            seen = {n}
            stack = [n]
            while stack:
                y = stack.pop()
                for z in self.eps[y]:
                    if z not in seen:
                        seen.add(z)
                        stack.append(z)
            c = self._equiv_cache[n] = frozenset(seen)
        return c

    def follow(self, n, symbol):
        out = set()
        for e in self.equiv(n):
            out |= self.trans[e].get(symbol, set())
        return out


class DefectMatcher(object):
    """Simulates symbol_re.Matcher over the undirected-epsilon NFA."""

    def __init__(self, ast, nfa=None, cur=None):
        self.nfa = nfa or DefectNFA(ast)
        self.cur = cur if cur is not None else frozenset([self.nfa.start])

    def copy(self):
        return DefectMatcher(None, self.nfa, self.cur)

    def match_symbol(self, x):
        new = set()
        for n in self.cur:
            new |= self.nfa.follow(n, x)
            new |= self.nfa.follow(n, WILDCARD)
        if not new:
            return False
        self.cur = frozenset(new)
        return True

    def would_accept(self, x):
        return self.copy().match_symbol(x)

    def is_complete(self):
        for n in self.cur:
            if self.nfa.final in self.nfa.equiv(n):
                return True
            if self.nfa.follow(n, END_OF_SEQUENCE):
                return True
        return False

    def valid_next_symbols(self):
        out = set()
        for n in self.cur:
            for e in self.nfa.equiv(n):
                out |= set(self.nfa.trans[e].keys())
        if self.is_complete():
            out.add(END_OF_SEQUENCE)
        return out

    def key(self):
        # canonical up to epsilon-equivalence
        return frozenset(min(self.nfa.equiv(n)) for n in self.cur)


# ---------------------------------------------------------------------------
# Pattern enumeration
# ---------------------------------------------------------------------------
def patterns_of_size(n, leaves, _cache={}):
    """All ASTs with exactly n nodes over the given leaves and
    cat/alt/opt/star/plus (no '$'; see with_eos_variants)."""
    key = (n, tuple(leaves))
    if key in _cache:
        return _cache[key]
    if n == 1:
        out = list(leaves)
    else:
        out = []
        for sub in patterns_of_size(n - 1, leaves):
            for u in ("opt", "star", "plus"):
                out.append((u, sub))
        for i in range(1, n - 1):
            for a in patterns_of_size(i, leaves):
                for b in patterns_of_size(n - 1 - i, leaves):
                    out.append(("cat", a, b))
                    out.append(("alt", a, b))
    _cache[key] = out
    return out


def with_eos_variants(r):
    """r itself plus variants with '$' in tail position (nothing follows it)."""
    out = [r, ("cat", r, EOS)]
    if r[0] == "alt":
        out.append(("alt", ("cat", r[1], EOS), r[2]))
        out.append(("alt", r[1], ("cat", r[2], EOS)))
    return out
