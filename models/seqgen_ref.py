"""Reference for make_matching_sequence (C19).

Works over any matcher model with copy()/match_symbol()/is_complete()/key()
(models.regexref.CorrectMatcher or DefectMatcher).

* `shortest(required, matchers, alphabet, depth_limit)`: length of a shortest
  sequence containing `required` in order with only insertions, at most
  `depth_limit` consecutive insertions, accepted by every matcher; None if
  there is none.  Dijkstra/BFS with a visited set over
  (position, matcher keys, consecutive insertions).
* `greedy_shortest(...)`: defect model for known finding F6 -- the same search
  restricted to "greedy-consistent" derivations (whenever the next required
  symbol can be consumed it is consumed; insertion is only tried when it
  cannot), which is exactly what the implementation's `continue` explores.
"""
import collections

OTHER = "\x00other"  # a symbol no pattern names: only wildcards match it


def _search(required, matchers, alphabet, depth_limit, greedy):
    start = (0, tuple(m.key() for m in matchers), 0)
    objs = {start: [m.copy() for m in matchers]}
    dist = {start: 0}
    q = collections.deque([start])
    n = len(required)
    while q:
        st = q.popleft()
        pos, _, consec = st
        ms = objs[st]
        d = dist[st]
        if pos == n and all(m.is_complete() for m in ms):
            return d
        moves = []
        took_required = False
        if pos < n:
            new = [m.copy() for m in ms]
            if all(m.match_symbol(required[pos]) for m in new):
                moves.append((pos + 1, new, 0))
                took_required = True
        if not (greedy and took_required) and consec < depth_limit:
            for x in alphabet:
                new = [m.copy() for m in ms]
                if all(m.match_symbol(x) for m in new):
                    moves.append((pos, new, consec + 1))
        for npos, new, nconsec in moves:
            key = (npos, tuple(m.key() for m in new), nconsec)
            if key not in dist:
                dist[key] = d + 1
                objs[key] = new
                q.append(key)
    return None


def shortest(required, matchers, alphabet, depth_limit):
    return _search(list(required), matchers, list(alphabet), depth_limit, greedy=False)


def greedy_shortest(required, matchers, alphabet, depth_limit):
    return _search(list(required), matchers, list(alphabet), depth_limit, greedy=True)


def check_result(result, required, matchers, depth_limit, wildcard="."):
    """Soundness of a returned sequence.  Returns a problem string or None.

    A WILDCARD placeholder in the result stands for 'any symbol' and is
    checked as a symbol that only wildcards match.
    """
    # required symbols in order, only insertions
    i = 0
    consec = 0
    for x in result:
        if i < len(required) and x == required[i]:
            # prefer matching (leftmost embedding); whether a different embedding
            # would give fewer consecutive insertions is not judged here
            i += 1
            consec = 0
        else:
            consec += 1
    if i != len(required):
        return "required symbols %r are not a subsequence of the result %r" % (list(required), list(result))
    if len(result) < len(required):
        return "result shorter than required"
    ms = [m.copy() for m in matchers]
    for j, x in enumerate(result):
        sym = OTHER if x == wildcard else x
        for m in ms:
            if not m.match_symbol(sym):
                return "result %r does not match a pattern at position %d (%r)" % (list(result), j, x)
    if not all(m.is_complete() for m in ms):
        return "result %r is not a complete match of every pattern" % (list(result),)
    return None
