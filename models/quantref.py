"""Reference quantisation arithmetic (SMPTE ST 2042-1, 13.3), repo-independent.

Nothing in this module imports `vc2_conformance`.  The factor table is
transcribed from the standard: quantisation factors are the integers nearest
to 4 * 2**(index/4), obtained from three rational approximations of
4*2**(1/4), 4*2**(2/4), 4*2**(3/4):

    index % 4 == 0 :  4 * 2**(index//4)
    index % 4 == 1 :  (503829 * 2**(index//4) + 52958) // 105917
    index % 4 == 2 :  (665857 * 2**(index//4) + 58854) // 117708
    index % 4 == 3 :  (440253 * 2**(index//4) + 32722) // 65444

`factor_is_plausible` is a second, table-free cross check (the factor must be
the fourth root of 2**(8+index) to within one unit / 1e-10 relative), so that a
slip in transcribing the table would not go unnoticed.

Periodicity argument (why a finite window decides the reconstruction bound for
ALL integers at a given index)
-----------------------------------------------------------------------------
Fix an index q and write f = factor(q) > 0, o = offset(q).  For a coefficient
x let a = |x| and divide:  4a = k*f + r  with  0 <= r < f  (k, r integers).

    forward(x)  = sign(x) * k                       (k = floor(4a / f))
    inverse(m)  = sign(m) * floor((|m|*f + o + 2) / 4)   for m != 0,  0 for 0

Case k == 0: the reconstruction is 0 and the error is  a = r/4.
Case k >= 1: write k = 4m + j with j in {0,1,2,3}.  Then k*f = 4*(m*f) + j*f, and
because m*f is an integer it can be pulled out of the floor:

    inverse(k) = m*f + floor((j*f + o + 2) / 4)
    a          = m*f + (j*f + r) / 4
    inverse(k) - a = floor((j*f + o + 2)/4) - (j*f + r)/4

which depends on (j, r) only -- not on m.  Hence the signed error
a -> inverse(forward(a)) - a  is periodic in a with period f on {a : 4a >= f},
and the set of classes {(k == 0, r)} u {(j, r) : k >= 1} is already exhausted
by k in {0, 1, 2, 3, 4}, i.e. by  0 <= 4a < 5f, i.e. by the window

    a in [0, ceil(5f/4)]            (`window_top(q)`; a few values beyond 5f/4
                                     are included, which is harmless).

Both functions are odd in x by construction (sign * function of |x|), so the
window with both signs decides, for the closed form, for every integer x:

    sign(inverse(forward(x))) in {0, sign(x)}  and  4*|x - inverse(forward(x))| < f.

The lemma was verified numerically before being relied upon (every index 0..44,
a up to 13f/4: error equal for equal (j, r), error(a + f) == error(a) whenever
4a >= f, and the classes seen in the window equal the classes seen in [0, 40f)),
and `props/c12.py` re-verifies `error(a + f) == error(a)` on the implementation
for every a in [ceil(f/4), ceil(5f/4)] and one far-away period at small indices on
every run.

Scope of the argument: it is a theorem about the closed form above.  The
driver establishes, by exhaustive comparison, that the implementation computes
exactly the closed form on the window (both signs); that the implementation
continues to do so outside the window rests on it being uniform integer
arithmetic in x (Python integers do not overflow, and the functions contain no
magnitude-dependent branch other than `== 0`); additional far-away windows and
power-of-two neighbourhoods are enumerated as a guard for that assumption.
"""

_RATIONAL = {
    0: (4, 0, 1),
    1: (503829, 52958, 105917),
    2: (665857, 58854, 117708),
    3: (440253, 32722, 65444),
}


def factor(index):
    """quant_factor (13.3.2)."""
    if index < 0:
        raise ValueError(index)
    num, half, den = _RATIONAL[index & 3]
    return (num * (1 << (index >> 2)) + half) // den


def offset(index):
    """quant_offset (13.3.2): 1, 2, then (factor+1)//2."""
    if index == 0:
        return 1
    if index == 1:
        return 2
    return (factor(index) + 1) // 2


def forward(x, index):
    """Informative note 1 of 13.3.1: magnitude 4|x| // factor, sign kept."""
    m = (4 * abs(x)) // factor(index)
    return m if x >= 0 else -m


def inverse(m, index):
    """inverse_quant (13.3.1)."""
    if m == 0:
        return 0
    mag = (abs(m) * factor(index) + offset(index) + 2) // 4
    return mag if m > 0 else -mag


def window_top(index):
    """Largest |x| of the decisive window: ceil(5*factor/4)."""
    return -((-5 * factor(index)) // 4)


def factor_is_plausible(index, f):
    """Table-free check that f is (about) 4 * 2**(index/4).

    Exact integers only.  Up to index 144 the rational approximations are exact
    enough that the factor is within one unit of the real value 2**(2+index/4)
    (checked as (f-1)**4 < 2**(8+index) < (f+1)**4); beyond that the error of
    the rational approximation dominates and the relative error of f**4 must be
    below 4e-10 (it is about 1e-11 for the standard's constants).
    """
    target = 1 << (8 + index)
    if f < 1:
        return False
    if index <= 144:
        return (f - 1) ** 4 < target < (f + 1) ** 4
    return abs(f ** 4 - target) * 10 ** 10 < target * 4


def reconstruction_problems(x, index, xq, xr, f):
    """Property C12's per-value clauses for an observed (quantised, reconstructed).

    x: coefficient, xq: observed forward value, xr: observed inverse of xq,
    f: the *reference* factor.  Returns a list of strings.
    """
    out = []
    if xr != 0 and (xr > 0) != (x > 0):
        out.append("sign flipped: x=%d -> %d -> %d" % (x, xq, xr))
    if x == 0 and xr != 0:
        out.append("zero reconstructs to %d" % xr)
    if not (4 * abs(x - xr) < f):
        out.append("error %d is not below one step (factor/4 = %d/4): x=%d -> %d -> %d" % (abs(x - xr), f, x, xq, xr))
    if index == 0 and xr != x:
        out.append("index 0 not lossless: x=%d -> %d -> %d" % (x, xq, xr))
    return out
