"""Reference acceptor for the stream-structure rules of C01 (and C10).

Written from the property statement and SMPTE ST 2042-1 sections 10.4, 10.5,
11.1, 11.2.2, 12.2, 14.2, C.2.2, C.3 -- not from the validator's code.  It works on
*abstract data units* (facts the harness knows because it built the bytes):

    unit = dict(
        kind      = "SH" | "PIC" | "FRAG" | "PAD" | "AUX" | "EOS",
        length    = true distance in bytes to the next parse_info,
        npo, ppo  = the declared parse offsets,
        ld        = True for low-delay picture/fragment parse codes (PIC/FRAG),
        header    = hashable identity of the sequence header bytes (SH),
        hdr       = dict(major_version, profile, level, fields, v3_features) (SH),
        pn        = picture number (PIC/FRAG),
        slice_count, x_offset, y_offset (FRAG),
        asym      = True if the transform parameters need version 3 (PIC / first FRAG),
    )

Rules
  R1 each sequence starts with a sequence header and ends with end_of_sequence
  R2 the data-unit names match the level's ordering pattern (true regex semantics)
  R3 every later sequence header is byte-identical to the first of the sequence
  R4 every parse code is allowed by the profile
  R5 versions: fragments need major_version 3, HQ profile >= 2; the coded
     major_version equals the largest version any feature of the sequence
     requires -- except that 3 is also allowed for a sequence without pictures
  R6 parse offsets: next is 0 on end_of_sequence, non-zero on header /
     auxiliary / padding, never 1..12, and when non-zero the true distance;
     previous is 0 on the first unit of a sequence, else the true distance
  R7 picture numbers increase by 1 mod 2^32 within a sequence; with field
     coding the first field of each frame is even and the sequence holds
     whole frames
  R8 fragmented pictures: first fragment (0 slices) only when none is in
     progress; slice fragments only when one is, same picture number, no more
     than the remaining slices, next raster-order offset; no picture unit
     while one is in progress; none in progress at end_of_sequence
"""
PROFILE_LD = 0
PROFILE_HQ = 3
M32 = 1 << 32

NAMES = {
    ("SH", None): "sequence_header",
    ("EOS", None): "end_of_sequence",
    ("AUX", None): "auxiliary_data",
    ("PAD", None): "padding_data",
    ("PIC", True): "low_delay_picture",
    ("PIC", False): "high_quality_picture",
    ("FRAG", True): "low_delay_picture_fragment",
    ("FRAG", False): "high_quality_picture_fragment",
}


def unit_name(u):
    return NAMES[(u["kind"], u.get("ld") if u["kind"] in ("PIC", "FRAG") else None)]


class StreamRef(object):
    """Incremental acceptor.  `level_matcher(level)` returns a fresh matcher
    (models.regexref.CorrectMatcher / DefectMatcher) for a level's pattern."""

    def __init__(self, level_matcher, slices_per_picture, slices_x=2):
        self.level_matcher = level_matcher
        self.slices_per_picture = slices_per_picture
        self.hdr_slices_x = slices_x
        self.dead = None  # reason once a rule is broken
        self._new_sequence()

    def _new_sequence(self):
        self.in_seq = False
        self.first = True  # next unit is the first of a sequence
        self.header = None
        self.hdr = None
        self.matcher = None
        self.last_pn = None
        self.n_pics = 0
        self.frag_left = 0
        self.frag_received = 0
        self.frag_pn = None
        self.need_version = 1
        self.prev_len = None
        self.prev_npo = None

    def copy(self):
        o = StreamRef.__new__(StreamRef)
        o.__dict__.update(self.__dict__)
        if self.matcher is not None:
            o.matcher = self.matcher.copy()
        return o

    def fail(self, why):
        if self.dead is None:
            self.dead = why

    # -- one data unit ---------------------------------------------------
    def step(self, u):
        if self.dead:
            return
        kind = u["kind"]
        # R6 (first half): the previous unit's next_parse_offset, now checkable
        if not self.first:
            if self.prev_npo != 0 and self.prev_npo != self.prev_len:
                return self.fail("R6 next_parse_offset %d != true distance %d" % (self.prev_npo, self.prev_len))
        # R1 first unit is a sequence header
        if self.first:
            if kind != "SH":
                return self.fail("R1 sequence does not start with a sequence header")
            self.in_seq = True
            self.hdr = u["hdr"]
            self.header = u["header"]
            self.matcher = self.level_matcher(self.hdr["level"])
            self.need_version = max(self.need_version, self.hdr.get("min_version", 1))
            # R5 profile needs version
            if self.hdr["profile"] == PROFILE_HQ:
                self.need_version = max(self.need_version, 2)
                if self.hdr["major_version"] < 2:
                    return self.fail("R5 HQ profile with major_version < 2")
            if self.hdr["major_version"] < self.hdr.get("min_version", 1):
                return self.fail("R5 header feature needs a higher version")
        elif kind == "SH":
            # R3
            if u["header"] != self.header:
                return self.fail("R3 sequence header changed mid-sequence")
        name = unit_name(u)
        # R2 level ordering pattern
        if not self.matcher.match_symbol(name):
            return self.fail("R2 %s not allowed here by the level's pattern" % name)
        # R4 profile permits parse code
        if kind in ("PIC", "FRAG"):
            if bool(u["ld"]) != (self.hdr["profile"] == PROFILE_LD):
                return self.fail("R4 parse code not allowed in profile")
        # R5 fragments need version 3
        if kind == "FRAG":
            self.need_version = max(self.need_version, 3)
            if self.hdr["major_version"] < 3:
                return self.fail("R5 fragment in a stream with major_version < 3")
        # R6 offsets of this unit
        npo, ppo = u["npo"], u["ppo"]
        if kind == "EOS":
            if npo != 0:
                return self.fail("R6 end_of_sequence with non-zero next_parse_offset")
        elif kind in ("SH", "PAD", "AUX"):
            if npo == 0:
                return self.fail("R6 zero next_parse_offset on a non-picture data unit")
        if 1 <= npo < 13:
            return self.fail("R6 next_parse_offset inside the parse_info header")
        if self.first:
            if ppo != 0:
                return self.fail("R6 non-zero previous_parse_offset at start of sequence")
        else:
            if ppo != self.prev_len:
                return self.fail("R6 previous_parse_offset %d != true distance %d" % (ppo, self.prev_len))
        # padding / auxiliary payload length is *defined* by next_parse_offset
        if kind in ("PAD", "AUX") and npo != u["length"]:
            return self.fail("R6 padding/auxiliary next_parse_offset does not point at the next parse_info")
        # pictures
        if kind == "PIC":
            if self.frag_left:
                return self.fail("R8 picture while a fragmented picture is in progress")
            if not self._picture_number(u["pn"]):
                return
            if u.get("asym"):
                self.need_version = max(self.need_version, 3)
        elif kind == "FRAG":
            if u["slice_count"] == 0:
                if self.frag_left:
                    return self.fail("R8 first fragment while a fragmented picture is in progress")
                if not self._picture_number(u["pn"]):
                    return
                if u.get("asym"):
                    self.need_version = max(self.need_version, 3)
                self.frag_pn = u["pn"]
                self.frag_left = self.slices_per_picture
                self.frag_received = 0
            else:
                if not self.frag_left:
                    return self.fail("R8 slice fragment with no fragmented picture in progress")
                if u["pn"] != self.frag_pn:
                    return self.fail("R8 picture number changed within a fragmented picture")
                if u["slice_count"] > self.frag_left:
                    return self.fail("R8 too many slices")
                sx = self.hdr_slices_x
                if (u["x_offset"], u["y_offset"]) != (self.frag_received % sx, self.frag_received // sx):
                    return self.fail("R8 fragment slices not contiguous")
                self.frag_received += u["slice_count"]
                self.frag_left -= u["slice_count"]
        self.prev_len = u["length"]
        self.prev_npo = npo
        self.first = False
        if kind == "EOS":
            self._end_sequence()

    def _picture_number(self, pn):
        if self.last_pn is not None and pn != (self.last_pn + 1) % M32:
            self.fail("R7 picture numbers not consecutive")
            return False
        if self.hdr["fields"] and self.n_pics % 2 == 0 and pn % 2 != 0:
            self.fail("R7 first field of a frame has an odd picture number")
            return False
        self.last_pn = pn
        self.n_pics += 1
        return True

    def _end_sequence(self):
        if not self.matcher.is_complete():
            return self.fail("R2 sequence incomplete per the level's pattern")
        if self.frag_left:
            return self.fail("R8 incomplete fragmented picture at end of sequence")
        if self.hdr["fields"] and self.n_pics % 2:
            return self.fail("R7 odd number of fields")
        mv = self.hdr["major_version"]
        if mv > self.need_version and not (mv == 3 and self.n_pics == 0):
            return self.fail("R5 major_version %d higher than required %d" % (mv, self.need_version))
        if mv < self.need_version:
            return self.fail("R5 major_version too low")
        self._new_sequence()

    # -- queries -----------------------------------------------------------
    def accepts_complete(self):
        """The units so far form a complete conformant stream."""
        return self.dead is None and self.first

    def viable(self):
        return self.dead is None

    def key(self):
        if self.dead:
            return ("DEAD",)
        if self.first:
            return ("BETWEEN",)
        return (
            self.header,
            self.matcher.key(),
            _pn_class(self.last_pn),
            (self.n_pics == 0, self.n_pics % 2),
            self.frag_left,
            self.frag_received,
            _pn_class(self.frag_pn) if self.frag_left else None,
            self.need_version,
            "zero" if self.prev_npo == 0 else ("ok" if self.prev_npo == self.prev_len else "bad"),
        )


def _pn_class(pn):
    """Exact near 0 and 2^32 (where absolute-numbered events can collide), parity elsewhere."""
    if pn is None:
        return None
    if pn <= 3 or pn >= M32 - 4:
        return pn
    return ("far", pn % 2)
