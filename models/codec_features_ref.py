"""Reference for the codec-features CSV format (C28).

Written from docs/source/user_guide/generating_test_cases.rst ("Defining codec
features"), the ``CodecFeatures`` / ``read_dict_list_csv`` /
``read_codec_features_csv`` docstrings and the VC-2 semantics of each field;
it shares no code with ``vc2_conformance.codec_features``.  The only things
imported are the enumerations and preset tables of ``vc2_data_tables`` (a
separate package, not under test).

Two parts:

* ``domain_problems(result, n_columns)`` -- the *domain predicate* on what the
  reader returned (the property's "fields lie in their documented domains");
* ``reference_read(grid)`` -- what a reader following the documentation returns
  for a grid of cells: ("ok", [plain config dicts]), ("error", reason) or
  ("unspecified", reason) where the documentation does not decide.
"""
import re
from collections import OrderedDict

import vc2_data_tables as t

# ---------------------------------------------------------------------------
# Documented fields
# ---------------------------------------------------------------------------

# field -> enum type ("Integer or alias")
TOP_ENUMS = OrderedDict(
    [
        ("level", t.Levels),
        ("profile", t.Profiles),
        ("picture_coding_mode", t.PictureCodingModes),
        ("wavelet_index", t.WaveletFilters),
        ("wavelet_index_ho", t.WaveletFilters),
    ]
)

# field -> minimum ("Integers"); the minimum follows from what the field counts:
TOP_INTS = OrderedDict(
    [
        ("dwt_depth", 0),  # a transform depth; 0 = no transform
        ("dwt_depth_ho", 0),  # "for symmetric transforms must be 0"
        ("slices_x", 1),  # a number of slices: a picture has at least one
        ("slices_y", 1),
        ("fragment_slice_count", 0),  # "If zero ... If greater than zero ..."
    ]
)

# video parameters: field -> ("int", minimum) | ("enum", type) | ("bool",)
# All of these are "... or ``default``".
VIDEO_FIELDS = OrderedDict(
    [
        ("frame_width", ("int", 1)),  # dimensions of a frame: at least one sample
        ("frame_height", ("int", 1)),
        ("color_diff_format_index", ("enum", t.ColorDifferenceSamplingFormats)),
        ("source_sampling", ("enum", t.SourceSamplingModes)),
        ("top_field_first", ("bool",)),
        ("frame_rate_numer", ("int", 1)),  # a rate: numerator and denominator non-zero
        ("frame_rate_denom", ("int", 1)),
        ("pixel_aspect_ratio_numer", ("int", 1)),  # a ratio of positive integers
        ("pixel_aspect_ratio_denom", ("int", 1)),
        ("clean_width", ("int", 0)),  # unsigned stream values (11.4.8)
        ("clean_height", ("int", 0)),
        ("left_offset", ("int", 0)),
        ("top_offset", ("int", 0)),
        ("luma_offset", ("int", 0)),  # unsigned stream values (11.4.9)
        ("luma_excursion", ("int", 1)),  # depth = intlog2(excursion+1) >= 1 bit
        ("color_diff_offset", ("int", 0)),
        ("color_diff_excursion", ("int", 1)),
        ("color_primaries_index", ("enum", t.PresetColorPrimaries)),
        ("color_matrix_index", ("enum", t.PresetColorMatrices)),
        ("transfer_function_index", ("enum", t.PresetTransferFunctions)),
    ]
)

CODEC_FEATURES_KEYS = [
    "name",
    "level",
    "profile",
    "picture_coding_mode",
    "video_parameters",
    "wavelet_index",
    "wavelet_index_ho",
    "dwt_depth",
    "dwt_depth_ho",
    "slices_x",
    "slices_y",
    "fragment_slice_count",
    "lossless",
    "picture_bytes",
    "quantization_matrix",
]

ALL_ROWS = (
    ["name", "base_video_format", "lossless", "picture_bytes", "quantization_matrix"]
    + list(TOP_ENUMS)
    + list(TOP_INTS)
    + list(VIDEO_FIELDS)
)


def matrix_shape(dwt_depth, dwt_depth_ho):
    """{level: set(orientations)} as built by quant_matrix (12.4.5.3)."""
    shape = {}
    if dwt_depth_ho == 0:
        shape[0] = {"LL"}
    else:
        shape[0] = {"L"}
        for level in range(1, dwt_depth_ho + 1):
            shape[level] = {"H"}
    for level in range(dwt_depth_ho + 1, dwt_depth_ho + dwt_depth + 1):
        shape[level] = {"HL", "LH", "HH"}
    return shape


def _is_int(x):
    return type(x) is int


# ---------------------------------------------------------------------------
# Domain predicate
# ---------------------------------------------------------------------------


def config_domain_problems(cf):
    """Problems with one returned CodecFeatures (list of strings)."""
    from vc2_conformance.codec_features import CodecFeatures
    from vc2_conformance.pseudocode.video_parameters import VideoParameters

    p = []
    if type(cf) is not CodecFeatures:
        return ["configuration is a %s, not CodecFeatures" % type(cf).__name__]
    if sorted(cf.keys()) != sorted(CODEC_FEATURES_KEYS):
        p.append("entries present: %r" % sorted(cf.keys()))
        return p
    name = cf["name"]
    if type(name) is not str or not name or name != name.strip():
        p.append("name %r is not a non-empty stripped string" % (name,))
    for k, enum in TOP_ENUMS.items():
        if type(cf[k]) is not enum:
            p.append("%s = %r is not a %s member" % (k, cf[k], enum.__name__))
    for k, minimum in TOP_INTS.items():
        if not _is_int(cf[k]) or cf[k] < minimum:
            p.append("%s = %r is not an int >= %d" % (k, cf[k], minimum))
    if type(cf["lossless"]) is not bool:
        p.append("lossless = %r is not a bool" % (cf["lossless"],))
    elif cf["lossless"]:
        if cf["picture_bytes"] is not None:
            p.append("picture_bytes = %r although lossless" % (cf["picture_bytes"],))
    else:
        if not _is_int(cf["picture_bytes"]) or cf["picture_bytes"] < 1:
            p.append("picture_bytes = %r is not an int >= 1 although lossy" % (cf["picture_bytes"],))
    qm = cf["quantization_matrix"]
    if qm is not None:
        if not isinstance(qm, dict):
            p.append("quantization_matrix is a %s" % type(qm).__name__)
        elif _is_int(cf["dwt_depth"]) and _is_int(cf["dwt_depth_ho"]) and cf["dwt_depth"] >= 0 and cf["dwt_depth_ho"] >= 0:
            ok = len(qm) == cf["dwt_depth"] + cf["dwt_depth_ho"] + 1
            shape = matrix_shape(cf["dwt_depth"], cf["dwt_depth_ho"]) if ok else None
            got = {}
            for level, orients in qm.items():
                if not _is_int(level) or not isinstance(orients, dict):
                    ok = False
                    break
                got[level] = set(orients)
                if not all(_is_int(v) for v in orients.values()):
                    p.append("quantization_matrix level %r has non-int values %r" % (level, orients))
            if not ok or got != shape:
                p.append(
                    "quantization_matrix %r is not shaped for dwt_depth=%r dwt_depth_ho=%r"
                    % (qm, cf["dwt_depth"], cf["dwt_depth_ho"])
                )
    vp = cf["video_parameters"]
    if type(vp) is not VideoParameters:
        p.append("video_parameters is a %s" % type(vp).__name__)
    elif sorted(vp.keys()) != sorted(VIDEO_FIELDS):
        p.append("video_parameters entries: %r" % sorted(vp.keys()))
    else:
        for k, spec in VIDEO_FIELDS.items():
            v = vp[k]
            if spec[0] == "int":
                if not _is_int(v) or v < spec[1]:
                    p.append("video_parameters[%s] = %r is not an int >= %d" % (k, v, spec[1]))
            elif spec[0] == "enum":
                if type(v) is not spec[1]:
                    p.append("video_parameters[%s] = %r is not a %s member" % (k, v, spec[1].__name__))
            else:
                if type(v) is not bool:
                    p.append("video_parameters[%s] = %r is not a bool" % (k, v))
    return p


def domain_problems(result, n_columns=None):
    """Problems with the value returned by read_codec_features_csv.

    n_columns: number of columns of the input holding at least one value (each
    must become exactly one configuration), if known.
    """
    p = []
    if type(result) is not OrderedDict:
        return ["result is a %s, not an OrderedDict" % type(result).__name__]
    names = []
    for key, cf in result.items():
        q = config_domain_problems(cf)
        p.extend("%r: %s" % (key, s) for s in q)
        if not q:
            names.append(cf["name"])
            if key != cf["name"]:
                p.append("key %r holds the configuration named %r" % (key, cf["name"]))
    if len(set(names)) != len(names):
        p.append("names are not unique: %r" % (names,))
    if n_columns is not None and len(result) != n_columns:
        p.append("%d configurations returned for %d non-empty columns" % (len(result), n_columns))
    return p


# ---------------------------------------------------------------------------
# Reference reader
# ---------------------------------------------------------------------------

_INT_RE = re.compile(r"^[+-]?[0-9]+$")


class _Invalid(Exception):
    pass


class _Unspecified(Exception):
    pass


def _int(tok, minimum=None):
    if not _INT_RE.match(tok):
        raise _Invalid("%r is not an integer" % tok)
    v = int(tok)
    if minimum is not None and v < minimum:
        raise _Invalid("%d < %d" % (v, minimum))
    return v


def _enum(enum, tok):
    if _INT_RE.match(tok):
        v = int(tok)
        for e in enum:
            if int(e) == v:
                return e
        raise _Invalid("%d is not a %s" % (v, enum.__name__))
    for e in enum:
        if e.name == tok:
            return e
    raise _Invalid("%r is not a %s alias" % (tok, enum.__name__))


def _bool(tok):
    if tok.upper() == "TRUE":
        return True
    if tok.upper() == "FALSE":
        return False
    if tok.lower() in ("1", "0", "t", "f", "y", "n", "yes", "no"):
        # The documentation only names TRUE and FALSE; other conventional
        # spellings are neither promised nor forbidden.
        raise _Unspecified("boolean spelled %r" % tok)
    raise _Invalid("%r is not a boolean" % tok)


def base_format_defaults(index):
    """Video parameters of a base video format (annex B tables)."""
    b = t.BASE_VIDEO_FORMAT_PARAMETERS[index]
    fr = t.PRESET_FRAME_RATES[b.frame_rate_index]
    par = t.PRESET_PIXEL_ASPECT_RATIOS[b.pixel_aspect_ratio_index]
    sr = t.PRESET_SIGNAL_RANGES[b.signal_range_index]
    cs = t.PRESET_COLOR_SPECS[b.color_spec_index]
    return OrderedDict(
        [
            ("frame_width", b.frame_width),
            ("frame_height", b.frame_height),
            ("color_diff_format_index", b.color_diff_format_index),
            ("source_sampling", b.source_sampling),
            ("top_field_first", b.top_field_first),
            ("frame_rate_numer", fr.numerator),
            ("frame_rate_denom", fr.denominator),
            ("pixel_aspect_ratio_numer", par.numerator),
            ("pixel_aspect_ratio_denom", par.denominator),
            ("clean_width", b.clean_width),
            ("clean_height", b.clean_height),
            ("left_offset", b.left_offset),
            ("top_offset", b.top_offset),
            ("luma_offset", sr.luma_offset),
            ("luma_excursion", sr.luma_excursion),
            ("color_diff_offset", sr.color_diff_offset),
            ("color_diff_excursion", sr.color_diff_excursion),
            ("color_primaries_index", cs.color_primaries_index),
            ("color_matrix_index", cs.color_matrix_index),
            ("transfer_function_index", cs.transfer_function_index),
        ]
    )


def grid_columns(grid):
    """[{key: value}] per column >= 1 plus the set of conflicting keys per column.

    Rows without cells, with an empty first cell or a first cell starting with
    '#' are ignored; whitespace is stripped; blank cells hold no value.
    """
    cols = []
    conflicts = []
    for row in grid:
        if not row:
            continue
        key = row[0].strip()
        if not key or key.startswith("#"):
            continue
        for i, cell in enumerate(row[1:]):
            while len(cols) <= i:
                cols.append(OrderedDict())
                conflicts.append(set())
            v = cell.strip()
            if v:
                if key in cols[i] and cols[i][key] != v:
                    conflicts[i].add(key)
                cols[i][key] = v
    return cols, conflicts


def reference_column(col):
    """Plain dict of one configuration; raises _Invalid / _Unspecified."""
    col = OrderedDict(col)
    unspecified = None

    def need(k):
        if k not in col:
            raise _Invalid("missing %s" % k)
        return col.pop(k)

    out = OrderedDict()
    if "name" not in col:
        unspecified = "column without a name"
        out["name"] = None
    else:
        out["name"] = col.pop("name")
    # Everything is parsed in one fixed order; the first problem decides.  An
    # _Unspecified token does not hide a later definite error.
    def attempt(fn, *a):
        nonlocal unspecified
        try:
            return fn(*a)
        except _Unspecified as e:
            unspecified = unspecified or str(e)
            return None

    for k, enum in TOP_ENUMS.items():
        out[k] = _enum(enum, need(k))
    for k, minimum in TOP_INTS.items():
        out[k] = _int(need(k), minimum)
    out["lossless"] = attempt(_bool, need("lossless"))
    base = _enum(t.BaseVideoFormats, need("base_video_format"))
    vp = base_format_defaults(base)
    for k, spec in VIDEO_FIELDS.items():
        tok = need(k)
        if tok.lower() == "default":
            continue
        if spec[0] == "int":
            vp[k] = _int(tok, spec[1])
        elif spec[0] == "enum":
            vp[k] = _enum(spec[1], tok)
        else:
            vp[k] = attempt(_bool, tok)
    out["video_parameters"] = vp
    if out["lossless"] is None:
        # unspecified boolean: picture_bytes cannot be judged
        col.pop("picture_bytes", None)
        out["picture_bytes"] = None
    elif out["lossless"]:
        if "picture_bytes" in col:
            raise _Invalid("picture_bytes given for a lossless configuration")
        out["picture_bytes"] = None
    else:
        out["picture_bytes"] = _int(need("picture_bytes"), 1)
    tok = need("quantization_matrix")
    if tok.lower() == "default":
        out["quantization_matrix"] = None
    else:
        values = [_int(v) for v in tok.split()]
        n_subbands = 1 + out["dwt_depth_ho"] + 3 * out["dwt_depth"]
        if len(values) != n_subbands:
            raise _Invalid("%d matrix values for %d subbands" % (len(values), n_subbands))
        shape = matrix_shape(out["dwt_depth"], out["dwt_depth_ho"])
        order = {"LL": 0, "L": 0, "H": 0, "HL": 0, "LH": 1, "HH": 2}
        slots = [(lvl, o) for lvl in sorted(shape) for o in sorted(shape[lvl], key=lambda o: order[o])]
        if len(values) != len(slots):
            raise _Invalid("%d matrix values for %d subbands" % (len(values), len(slots)))
        qm = OrderedDict()
        for (lvl, o), v in zip(slots, values):
            qm.setdefault(lvl, OrderedDict())[o] = v
        out["quantization_matrix"] = qm
    if col:
        raise _Invalid("unknown rows %r" % sorted(col))
    if unspecified:
        raise _Unspecified(unspecified)
    return out


def reference_read(grid):
    cols, conflicts = grid_columns(grid)
    configs = []
    unspecified = None
    for col, conf in zip(cols, conflicts):
        if not col:
            continue
        if conf:
            unspecified = unspecified or "row %r given twice with different values" % sorted(conf)[0]
            continue
        try:
            cfg = reference_column(col)
        except _Invalid as e:
            return ("error", str(e))
        except _Unspecified as e:
            unspecified = unspecified or str(e)
            continue
        if cfg["name"] in [c["name"] for c in configs]:
            return ("error", "name %r used twice" % cfg["name"])
        configs.append(cfg)
    if unspecified:
        return ("unspecified", unspecified)
    return ("ok", configs)


def n_nonempty_columns(grid):
    cols, _ = grid_columns(grid)
    return sum(1 for c in cols if c)


def plain_config(cf):
    """A returned CodecFeatures as plain comparable data (types included)."""

    def pv(v):
        if isinstance(v, dict):
            return sorted(((pv(k), pv(x)) for k, x in v.items()), key=repr)
        return (type(v).__name__, int(v) if isinstance(v, int) else v)

    return [(k, pv(cf[k])) for k in CODEC_FEATURES_KEYS if k in cf]


def plain_reference(cfg):
    def pv(v):
        if isinstance(v, dict):
            return sorted(((pv(k), pv(x)) for k, x in v.items()), key=repr)
        return (type(v).__name__, int(v) if isinstance(v, int) else v)

    return [(k, pv(cfg[k])) for k in CODEC_FEATURES_KEYS]
