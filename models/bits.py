"""Reference model of VC-2 bit-level I/O (SMPTE ST 2042-1 annex A) on plain lists of bits.

Independent of the repository: nothing here imports vc2_conformance.  A stream is a list
of 0/1 ints, most significant bit of each byte first; a position is a bit offset from
the start of the stream.  `tell()` reports positions in the convention used by the code
under test, `(byte, bit)` with bit counting 7 (MSB) .. 0 (LSB).

Public API
----------
exp_golomb_length(v), signed_exp_golomb_length(v)
encode_uint(v), encode_sint(v), encode_nbits(n, v), encode_bytes(n, b), encode_bits(n, bits)
decode_uint(bits, pos=0), decode_sint(bits, pos=0)          -> (value, new_pos)
bytes_to_bits(b), bits_to_bytes(bits, pad=0), to_offset((byte, bit)), from_offset(n)
BitWriterModel  write_bit/nbits/uint_lit/uint/sint/bytes/bits, byte_align, seek, tell,
                flush, bounded_block_begin/end, bits_remaining, to_bytes()
BitReaderModel  read_bit/bool/nbits/uint_lit/uint/sint/bytes/bits, byte_align, seek, tell,
                bounded_block_begin/end, flush_block, bits_remaining, is_end_of_stream()

Errors: ModelEOF (read at/after the end of the stream), ModelOutOfRange (value does not fit:
nothing is written), ModelBlockOverflow (a 0 bit written past the end of a bounded block),
ModelUsageError (nested block, end without begin, seek beyond the end of a block: state is
left unchanged).

Bounded blocks (A.4.2): a block of `length` bits starts at the current position.  While
in a block every bit read or written counts against it; once it is used up reads yield 1
without moving, writes of 1 are accepted without writing or moving and writes of 0 are
errors.  `bits_remaining` keeps counting below zero (the number of bits past the end); a
block begun with a length <= 0 is past its end from the start.

What the model leaves undefined (callers must treat these as terminal):
* the block accounting after ModelEOF raised inside a bounded block;
* the writer after ModelBlockOverflow.
"""


class ModelEOF(Exception):
    pass


class ModelOutOfRange(Exception):
    pass


class ModelBlockOverflow(Exception):
    pass


class ModelUsageError(Exception):
    pass


# ---------------------------------------------------------------------------
# plain functions
# ---------------------------------------------------------------------------

def bytes_to_bits(data):
    out = []
    for byte in bytearray(data):
        for c in format(byte, "08b"):
            out.append(1 if c == "1" else 0)
    return out


def bits_to_bytes(bits, pad=0):
    """Pack bits MSB first; a final partial byte is filled with `pad` bits."""
    bits = list(bits)
    while len(bits) % 8:
        bits.append(pad)
    out = bytearray()
    for i in range(0, len(bits), 8):
        out.append(int("".join("1" if b else "0" for b in bits[i:i + 8]), 2))
    return bytes(out)


def to_offset(tell):
    byte, bit = tell
    return byte * 8 + (7 - bit)


def from_offset(n):
    return (n // 8, 7 - (n % 8))


def _binary_digits(v):
    """Binary digits of v >= 1, most significant first, as a string."""
    return format(v, "b")


def encode_uint(v):
    """Unsigned interleaved exp-Golomb (A.4.3): the binary digits of v+1 after the
    leading one, each preceded by a 0 'follow' bit, then a terminating 1."""
    if v < 0:
        raise ModelOutOfRange(v)
    out = []
    for d in _binary_digits(v + 1)[1:]:
        out.append(0)
        out.append(1 if d == "1" else 0)
    out.append(1)
    return out


def encode_sint(v):
    """Signed exp-Golomb (A.4.4): magnitude, then (if non-zero) a sign bit, 1 = negative."""
    out = encode_uint(-v if v < 0 else v)
    if v != 0:
        out.append(1 if v < 0 else 0)
    return out


def exp_golomb_length(v):
    if v < 0:
        raise ModelOutOfRange(v)
    return 2 * (len(_binary_digits(v + 1)) - 1) + 1


def signed_exp_golomb_length(v):
    return exp_golomb_length(-v if v < 0 else v) + (1 if v != 0 else 0)


def encode_nbits(n, v):
    """n-bit unsigned integer, MSB first (A.3.3).  v must satisfy 0 <= v < 2**n."""
    if v < 0 or v >= (1 << n):
        raise ModelOutOfRange((n, v))
    if n == 0:
        return []
    return [1 if c == "1" else 0 for c in format(v, "0%db" % n)]


def encode_bits(n, bits):
    """A bit string in an n-bit field, right-padded with zeros; longer does not fit."""
    bits = [1 if b else 0 for b in bits]
    if len(bits) > n:
        raise ModelOutOfRange((n, bits))
    return bits + [0] * (n - len(bits))


def encode_bytes(n, data):
    """A byte string in an n-byte field, right-padded with zero bytes."""
    data = bytes(bytearray(data))
    if len(data) > n:
        raise ModelOutOfRange((n, data))
    return bytes_to_bits(data) + [0] * (8 * (n - len(data)))


def decode_uint(bits, pos=0):
    """Decode from a plain list of bits; returns (value, new_pos).  ModelEOF if it runs out."""
    digits = "1"
    while True:
        if pos >= len(bits):
            raise ModelEOF(pos)
        follow = bits[pos]
        pos += 1
        if follow:
            break
        if pos >= len(bits):
            raise ModelEOF(pos)
        digits += "1" if bits[pos] else "0"
        pos += 1
    return int(digits, 2) - 1, pos


def decode_sint(bits, pos=0):
    v, pos = decode_uint(bits, pos)
    if v != 0:
        if pos >= len(bits):
            raise ModelEOF(pos)
        if bits[pos]:
            v = -v
        pos += 1
    return v, pos


# ---------------------------------------------------------------------------
# bounded-block bookkeeping shared by reader and writer
# ---------------------------------------------------------------------------

class _Blocked(object):
    """pos (bit offset) + optional bounded block.

    `remaining` is None outside a block.  The block's end is deemed to be at
    pos + max(remaining, 0): once past the end the position no longer moves.
    """

    def __init__(self):
        self.pos = 0
        self.remaining = None

    @property
    def bits_remaining(self):
        return self.remaining

    def tell(self):
        return from_offset(self.pos)

    def bounded_block_begin(self, length):
        if self.remaining is not None:
            raise ModelUsageError("nested bounded block")
        self.remaining = length

    def bounded_block_end(self):
        """Leave the block; returns the number of unused bits (not skipped)."""
        if self.remaining is None:
            raise ModelUsageError("not in a bounded block")
        unused = self.remaining if self.remaining > 0 else 0
        self.remaining = None
        return unused

    def _seek_accounting(self, new_pos):
        """New value of `remaining` for a move to new_pos (or ModelUsageError)."""
        if self.remaining is None or new_pos == self.pos:
            return self.remaining
        end = self.pos + (self.remaining if self.remaining > 0 else 0)
        if new_pos > end:
            raise ModelUsageError("seek past the end of the bounded block")
        return end - new_pos

    def _take(self):
        """Account for one bit.  True if the bit lies inside the block (or there is no
        block), False if it is past the end."""
        if self.remaining is None:
            return True
        self.remaining -= 1
        return self.remaining >= 0

    def _untake(self):
        if self.remaining is not None:
            self.remaining += 1


# ---------------------------------------------------------------------------
# reader
# ---------------------------------------------------------------------------

class BitReaderModel(_Blocked):
    def __init__(self, data=b"", bits=None):
        _Blocked.__init__(self)
        self.bits = list(bits) if bits is not None else bytes_to_bits(data)

    def is_end_of_stream(self):
        return self.pos >= len(self.bits)

    def seek(self, byte, bit=7):
        new_pos = to_offset((byte, bit))
        self.remaining = self._seek_accounting(new_pos)
        self.pos = new_pos

    # -- primitives ---------------------------------------------------------
    def read_bit(self):
        if not self._take():
            return 1
        if self.pos >= len(self.bits):
            self._untake()  # undefined by the model; see module docstring
            raise ModelEOF(self.pos)
        b = self.bits[self.pos]
        self.pos += 1
        return b

    def read_bool(self):
        return self.read_bit() == 1

    def read_bits(self, n):
        """n bits as a tuple of ints."""
        return tuple(self.read_bit() for _ in range(n))

    def read_nbits(self, n):
        v = 0
        for b in self.read_bits(n):
            v = v * 2 + b
        return v

    def read_uint_lit(self, nbytes):
        return self.read_nbits(8 * nbytes)

    def read_bytes(self, nbytes):
        return bits_to_bytes(self.read_bits(8 * nbytes))

    def read_uint(self):
        digits = "1"
        while self.read_bit() == 0:
            digits += "1" if self.read_bit() else "0"
        return int(digits, 2) - 1

    def read_sint(self):
        v = self.read_uint()
        if v != 0 and self.read_bit() == 1:
            v = -v
        return v

    def byte_align(self):
        """Read up to the next byte boundary (A.2.4); returns the padding bits."""
        return self.read_bits((-self.pos) % 8)

    def flush_block(self):
        """Read (and discard) whatever is left of the current block; stays in the block
        (A.4.2 flush_inputb)."""
        if self.remaining is None:
            raise ModelUsageError("not in a bounded block")
        out = []
        while self.remaining > 0:
            out.append(self.read_bit())
        return tuple(out)

    def state(self):
        return (self.pos, self.remaining, tuple(self.bits))


# ---------------------------------------------------------------------------
# writer
# ---------------------------------------------------------------------------

class BitWriterModel(_Blocked):
    """The stream content is what a flush would leave in the file.

    Byte granularity of the real writer, as documented ("seeking to a given byte will
    overwrite any bits already set in that byte to 0"): the writer owns the byte it
    is positioned in.  Starting to write at the first bit of a byte, or seeking into the
    middle of a byte, clears the whole byte; being positioned at the first bit of a byte
    without writing leaves it alone.  Seeking/writing beyond the end zero-fills.
    """

    def __init__(self, initial=b""):
        _Blocked.__init__(self)
        self.bits = bytes_to_bits(initial)

    def _own_byte(self, byte):
        need = (byte + 1) * 8
        if len(self.bits) < need:
            self.bits.extend([0] * (need - len(self.bits)))
        self.bits[byte * 8:need] = [0] * 8

    def is_end_of_stream(self):
        return True

    def seek(self, byte, bit=7):
        new_pos = to_offset((byte, bit))
        self.remaining = self._seek_accounting(new_pos)
        self.pos = new_pos
        if new_pos % 8:
            self._own_byte(byte)

    def flush(self):
        pass

    def to_bytes(self):
        return bits_to_bytes(self.bits)

    # -- primitives ---------------------------------------------------------
    def write_bit(self, value):
        bit = 1 if value else 0
        if not self._take():
            if bit == 0:
                raise ModelBlockOverflow(self.pos)
            return
        if self.pos % 8 == 0:
            self._own_byte(self.pos // 8)
        self.bits[self.pos] = bit
        self.pos += 1

    def _write_all(self, bits):
        for b in bits:
            self.write_bit(b)

    def write_nbits(self, n, v):
        self._write_all(encode_nbits(n, v))

    def write_uint_lit(self, nbytes, v):
        self._write_all(encode_nbits(8 * nbytes, v))

    def write_bits(self, n, bits):
        self._write_all(encode_bits(n, bits))

    def write_bytes(self, nbytes, data):
        self._write_all(encode_bytes(nbytes, data))

    def write_uint(self, v):
        self._write_all(encode_uint(v))

    def write_sint(self, v):
        self._write_all(encode_sint(v))

    def byte_align(self, pad=0):
        """Write `pad` bits up to the next byte boundary; returns how many."""
        n = (-self.pos) % 8
        self._write_all([pad] * n)
        return n

    def state(self):
        return (self.pos, self.remaining, tuple(self.bits))
