"""Reference interpreter for C21: description programs for the serdes framework.

Independent of the repository: it knows the *program grammar*, the documented
meaning of each statement and the VC-2 bit encodings, and predicts

* the description tree a deserialiser must produce (and that a serialiser must
  be given),
* the exact bits a serialiser must write (own bit-list model incl. bounded
  blocks: bits past the end of a block are dropped if 1 and an error if 0),
* the first failing statement, if any (re-used target; 0 written past the end of
  a bounded block),
* the path of the current context and its type after every statement.

Program grammar (plain tuples)::

    ("prim", kind, target)         kind in KINDS
    ("declare", target)            declare_list
    ("sub", target, body)          subcontext (target may be a declared list)
    ("block", padtarget, length, body)
    ("align", target)              byte_align
    ("computed", target)           computed_value(target, COMPUTED)
    ("settype", tindex)            set_context_type; 0 = dict, 1/2 = two fixeddict types

Tree: DictNode(type index, items) / list / leaf; leaves are bool, int, bytes or
("bits", "0101") for bit arrays.
"""

COMPUTED = 7

# value alphabets; index 0.. ; the *last* element of each alphabet consists of 1 bits only
VALUES = {
    "bool": [False, True],
    "nbits3": [5, 7],
    "uintlit1": [0xA5, 0xFF],
    "uint": [2, 0],
    "sint": [1, -1, 0],
    "bytes1": [b"\x5a", b"\xff"],
    "bitarray2": [("bits", "10"), ("bits", "11")],
}
KINDS = ["bool", "nbits3", "uintlit1", "uint", "sint", "bytes1", "bitarray2"]


class DictNode(object):
    __slots__ = ("type", "items")

    def __init__(self, type=0, items=None):
        self.type = type
        self.items = {} if items is None else items


class Reused(Exception):
    pass


class ZeroPastEnd(Exception):
    pass


# -- bit encodings (written from the VC-2 definitions, A.3 / A.4) -----------
def fixed_bits(value, n):
    if value < 0 or value >= (1 << n):
        raise ValueError("out of range")
    return [int(c) for c in format(value, "0%db" % n)] if n else []


def uint_bits(value):
    """Interleaved exp-Golomb: for v+1 = 1 b_k..b_0: 0 b_k ... 0 b_0 1."""
    tail = bin(value + 1)[3:]
    out = []
    for c in tail:
        out.append(0)
        out.append(int(c))
    out.append(1)
    return out


def sint_bits(value):
    out = uint_bits(abs(value))
    if value != 0:
        out.append(1 if value < 0 else 0)
    return out


def encode(kind, value):
    if kind == "bool":
        return [1 if value else 0]
    if kind == "nbits3":
        return fixed_bits(value, 3)
    if kind == "uintlit1":
        return fixed_bits(value, 8)
    if kind == "uint":
        return uint_bits(value)
    if kind == "sint":
        return sint_bits(value)
    if kind == "bytes1":
        v = bytes(value) + b"\x00" * (1 - len(value))
        out = []
        for byte in v:
            out.extend(fixed_bits(byte, 8))
        return out
    if kind == "bitarray2":
        s = value[1] + "0" * (2 - len(value[1]))
        return [int(c) for c in s]
    raise ValueError(kind)


def pad_bits(value):
    return [int(c) for c in value[1]]


class Sink(object):
    """Bit-list writer with one optional bounded block."""

    def __init__(self):
        self.bits = []
        self.remaining = None

    def put(self, bit):
        if self.remaining is not None:
            self.remaining -= 1
            if self.remaining < 0:
                if not bit:
                    raise ZeroPastEnd()
                return
        self.bits.append(bit)

    def put_all(self, bits):
        for b in bits:
            self.put(b)

    def to_bytes(self):
        bits = self.bits + [0] * ((-len(self.bits)) % 8)
        out = bytearray()
        for i in range(0, len(bits), 8):
            byte = 0
            for b in bits[i : i + 8]:
                byte = (byte << 1) | b
            out.append(byte)
        return bytes(out)


class Frame(object):
    __slots__ = ("node", "used", "lists", "path")

    def __init__(self, node, path):
        self.node = node
        self.used = set()  # non-list targets already used
        self.lists = set()  # targets declared as lists
        self.path = path  # path of this context from the root


class Result(object):
    """Outcome of one interpretation."""

    def __init__(self):
        self.tree = None
        self.bits = None
        self.data = None  # bits packed into bytes (zero padded)
        self.error = None  # None | ("reused", stmt, phase) | ("zero_past_end", stmt, phase)
        self.choices = []
        self.arities = []
        self.sites = []  # value-bearing statements executed
        self.computed = []  # (container path, key/index, is_list) of computed values
        self.trace = []  # (stmt, phase, path, ctx type) after each executed step
        self.snapshots = None  # canonical tree after each step (only if requested)
        self.n_steps = 0


def canon(node):
    if isinstance(node, DictNode):
        return ("D", node.type, tuple(sorted((k, canon(v)) for k, v in node.items.items())))
    if isinstance(node, list):
        return ("L", tuple(canon(v) for v in node))
    if isinstance(node, tuple) and node and node[0] == "bits":
        return ("bits", node[1])
    if isinstance(node, bool):
        return ("bool", node)
    if isinstance(node, int):
        return ("int", node)
    if isinstance(node, (bytes, bytearray)):
        return ("bytes", bytes(node).hex())
    raise TypeError(repr(node))


def interpret(program, choices=(), override=None, snapshots=False):
    """Interpret ``program``.

    ``choices``: index into the value alphabet at each value-bearing statement in
    execution order (missing entries = 0).  ``override``: {site number: value}
    replaces the value *written* at that site (used to predict default values);
    the tree keeps the chosen value.
    """
    res = Result()
    res.snapshots = [] if snapshots else None
    root = DictNode(0)
    sink = Sink()
    stack = [Frame(root, ())]
    counter = [0]
    choices = list(choices)
    override = override or {}

    def choose(arity):
        i = len(res.choices)
        c = choices[i] if i < len(choices) else 0
        if c >= arity:
            raise IndexError("choice out of range")
        res.choices.append(c)
        res.arities.append(arity)
        return c

    def place(frame, target, value):
        """Store a value for target; returns (container path, key/index, is_list)."""
        if target in frame.lists:
            lst = frame.node.items[target]
            lst.append(value)
            return frame.path + (target,), len(lst) - 1, True
        if target in frame.used:
            raise Reused()
        frame.used.add(target)
        frame.node.items[target] = value
        return frame.path, target, False

    def check_usable(frame, target):
        if target not in frame.lists and target in frame.used:
            raise Reused()

    def value_site(frame, stmt, kind, target, alphabet, write):
        # a re-used target fails before anything is read/written
        check_usable(frame, target)
        c = choose(len(alphabet))
        value = alphabet[c]
        where = place(frame, target, value)
        site = len(res.sites)
        res.sites.append(
            {
                "site": site,
                "stmt": stmt,
                "kind": kind,
                "target": target,
                "value": value,
                "choice": c,
                "alphabet": alphabet,
                "ctx_type": frame.node.type,
                "container": where[0],
                "key": where[1],
                "is_list": where[2],
            }
        )
        written = override.get(site, value)
        sink.put_all(write(written))

    def step(stmt, phase):
        frame = stack[-1]
        res.trace.append((stmt, phase, frame.path, frame.node.type))
        res.n_steps += 1
        if res.snapshots is not None:
            res.snapshots.append(canon(root))

    def run(stmts):
        for s in stmts:
            idx = counter[0]
            counter[0] += 1
            pos[0] = (idx, "enter")
            frame = stack[-1]
            k = s[0]
            if k == "prim":
                kind, target = s[1], s[2]
                value_site(frame, idx, kind, target, VALUES[kind], lambda v, kind=kind: encode(kind, v))
                step(idx, "done")
            elif k == "declare":
                target = s[1]
                if target in frame.lists or target in frame.used:
                    raise Reused()
                frame.lists.add(target)
                frame.node.items[target] = []
                step(idx, "done")
            elif k == "computed":
                check_usable(frame, s[1])
                res.computed.append(place(frame, s[1], COMPUTED))
                step(idx, "done")
            elif k == "settype":
                frame.node.type = s[1]
                step(idx, "done")
            elif k == "align":
                n = (-len(sink.bits)) % 8
                alphabet = [("bits", "0" * n), ("bits", "1" * n)] if n else [("bits", "")]
                value_site(frame, idx, "pad", s[1], alphabet, pad_bits)
                step(idx, "done")
            elif k == "sub":
                target = s[1]
                check_usable(frame, target)
                node = DictNode(0)
                cpath, key, is_list = place(frame, target, node)
                path = frame.path + ((target, key) if is_list else (target,))
                stack.append(Frame(node, path))
                step(idx, "enter")
                run(s[2])
                pos[0] = (idx, "exit")
                stack.pop()
                step(idx, "exit")
            elif k == "block":
                padtarget, length = s[1], s[2]
                if sink.remaining is not None:
                    raise ValueError("nested bounded blocks are outside the grammar")
                sink.remaining = length
                step(idx, "enter")
                run(s[3])
                pos[0] = (idx, "exit")
                frame = stack[-1]
                n = max(0, sink.remaining)
                sink.remaining = None
                alphabet = [("bits", "0" * n), ("bits", "1" * n)] if n else [("bits", "")]
                value_site(frame, idx, "pad", padtarget, alphabet, pad_bits)
                step(idx, "exit")
            else:
                raise ValueError(s)

    pos = [(-1, "enter")]
    try:
        run(program)
    except Reused:
        res.error = ("reused", pos[0][0], pos[0][1])
    except ZeroPastEnd:
        res.error = ("zero_past_end", pos[0][0], pos[0][1])
    res.tree = root
    res.bits = list(sink.bits)
    res.data = sink.to_bytes()
    res.open_contexts = len(stack) - 1
    res.n_started = counter[0]  # statements started (pre-order) before the end / failure
    return res


def all_runs(program, snapshots=False):
    """Every value assignment of ``program`` (odometer over recorded choice sites)."""
    prefix = []
    while True:
        res = interpret(program, prefix, snapshots=snapshots)
        yield res
        ch, ar = res.choices, res.arities
        i = len(ch) - 1
        while i >= 0 and ch[i] + 1 >= ar[i]:
            i -= 1
        if i < 0:
            return
        prefix = ch[:i] + [ch[i] + 1]


# -- reading back (used to sanity-check the model against itself) -----------
class Source(object):
    def __init__(self, bits):
        self.bits = bits
        self.pos = 0
        self.remaining = None

    def get(self):
        if self.remaining is not None:
            self.remaining -= 1
            if self.remaining < 0:
                return 1
        if self.pos >= len(self.bits):
            raise EOFError()
        b = self.bits[self.pos]
        self.pos += 1
        return b


def decode(kind, src):
    if kind == "bool":
        return bool(src.get())
    if kind in ("nbits3", "uintlit1"):
        n = 3 if kind == "nbits3" else 8
        v = 0
        for _ in range(n):
            v = v * 2 + src.get()
        return v
    if kind in ("uint", "sint"):
        v = 1
        while src.get() == 0:
            v = v * 2 + src.get()
        v -= 1
        if kind == "sint" and v != 0 and src.get():
            v = -v
        return v
    if kind == "bytes1":
        v = 0
        for _ in range(8):
            v = v * 2 + src.get()
        return bytes([v])
    if kind == "bitarray2":
        return ("bits", "".join(str(src.get()) for _ in range(2)))
    raise ValueError(kind)


# -- program enumeration -------------------------------------------------
TARGETS = ("x", "y")
BLOCK_LENGTHS = (0, 2, 5)
N_TYPES = 3


def leaves(kinds=None, types=None):
    out = []
    for kind in kinds or KINDS:
        for t in TARGETS:
            out.append(("prim", kind, t))
    for t in TARGETS:
        out.append(("declare", t))
    for t in TARGETS:
        out.append(("align", t))
    for t in TARGETS:
        out.append(("computed", t))
    for ti in types if types is not None else range(N_TYPES):
        out.append(("settype", ti))
    return out


class Grammar(object):
    """Forests of statements with exactly n nodes, container nesting <= depth."""

    def __init__(self, kinds=None, max_depth=2, block_lengths=None, types=None):
        self.leaves = leaves(kinds, types)
        self.block_lengths = tuple(block_lengths) if block_lengths is not None else BLOCK_LENGTHS
        self.max_depth = max_depth
        self._forests = {}
        self._stmts = {}

    def stmts(self, size, depth, in_block):
        key = (size, depth, in_block)
        if key in self._stmts:
            return self._stmts[key]
        out = []
        if size == 1:
            out.extend(self.leaves)
        if depth > 0 and size >= 1:
            for body in self.forests(size - 1, depth - 1, in_block):
                for t in TARGETS:
                    out.append(("sub", t, body))
            if not in_block:
                for body in self.forests(size - 1, depth - 1, True):
                    for t in TARGETS:
                        for length in self.block_lengths:
                            out.append(("block", t, length, body))
        self._stmts[key] = out
        return out

    def forests(self, n, depth, in_block):
        key = (n, depth, in_block)
        if key in self._forests:
            return self._forests[key]
        if n == 0:
            out = [()]
        else:
            out = []
            for first_size in range(1, n + 1):
                rests = self.forests(n - first_size, depth, in_block)
                for first in self.stmts(first_size, depth, in_block):
                    for rest in rests:
                        out.append((first,) + rest)
        self._forests[key] = out
        return out

    def count(self, n):
        """Number of programs with exactly n nodes (without materialising them all)."""
        total = 0
        for first_size in range(1, n + 1):
            total += len(self.stmts(first_size, self.max_depth, False)) * len(self.forests(n - first_size, self.max_depth, False))
        return total if n else 1

    def firsts(self, n):
        """[(first statement, size)] for programs of n nodes, deterministic order."""
        key = ("firsts", n)
        if key in self._stmts:
            return self._stmts[key]
        out = []
        for first_size in range(1, n + 1):
            for first in self.stmts(first_size, self.max_depth, False):
                out.append((first, first_size))
        self._stmts[key] = out
        return out

    def programs_with_first(self, n, first, first_size):
        for rest in self.forests(n - first_size, self.max_depth, False):
            yield (first,) + rest
