"""Reference slice / subband geometry (SMPTE ST 2042-1, 13.2.3, 13.5.3.2, 13.5.6.2).

Repo-independent (nothing here imports `vc2_conformance`).  Written from the
definitions rather than from the closed forms used by the implementation:

* the padded component is the smallest array at least as large as the component
  whose width is a multiple of 2**(dwt_depth_ho + dwt_depth) and whose height is
  a multiple of 2**dwt_depth (15.4.5 / 13.2.3);
* subband sizes are obtained by *running the decomposition*: each 2-D level
  halves both dimensions, each horizontal-only level halves the width only; the
  high-pass bands of a level have the size of the low-pass band produced at that
  level, and level 0 is the final low-pass band;
* slice edges are floor(extent * s / slices), s = 0..slices (13.5.6.2);
* low-delay slice bytes are floor((k+1) n / d) - floor(k n / d) for the k-th
  slice in raster order (13.5.3.2).
"""


def padded(size, multiple):
    """Smallest multiple of `multiple` that is >= size (by search, not formula)."""
    if size < 0 or multiple < 1:
        raise ValueError((size, multiple))
    p = (size // multiple) * multiple
    while p < size:
        p += multiple
    return p


def padded_dims(w, h, dwt_depth, dwt_depth_ho):
    return padded(w, 1 << (dwt_depth + dwt_depth_ho)), padded(h, 1 << dwt_depth)


def subband_dims(w, h, dwt_depth, dwt_depth_ho):
    """{level: (width, height)} for levels 0..dwt_depth+dwt_depth_ho."""
    cw, ch = padded_dims(w, h, dwt_depth, dwt_depth_ho)
    dims = {}
    level = dwt_depth + dwt_depth_ho
    for _ in range(dwt_depth):  # 2-D levels, from the top
        if cw % 2 or ch % 2:
            raise AssertionError("odd band in 2-D level")
        cw, ch = cw // 2, ch // 2
        dims[level] = (cw, ch)
        level -= 1
    for _ in range(dwt_depth_ho):  # horizontal-only levels
        if cw % 2:
            raise AssertionError("odd band in horizontal-only level")
        cw = cw // 2
        dims[level] = (cw, ch)
        level -= 1
    assert level == 0
    dims[0] = (cw, ch)
    return dims


def orientations(level, dwt_depth_ho):
    if level == 0:
        return ("LL",) if dwt_depth_ho == 0 else ("L",)
    if level <= dwt_depth_ho:
        return ("H",)
    return ("HL", "LH", "HH")


def edges(extent, slices):
    """The slices+1 slice edges along one axis of a subband of size `extent`."""
    return [(extent * s) // slices for s in range(slices + 1)]


def is_partition(bounds, extent):
    """bounds: list of (lo, hi).  In-order, disjoint, exhaustive cover of [0, extent)."""
    pos = 0
    for lo, hi in bounds:
        if lo != pos or hi < lo:
            return False
        pos = hi
    return pos == extent


def all_equal_extents(extent, slices):
    """Definition: do all slices get the same number of samples along this axis?"""
    e = edges(extent, slices)
    sizes = set(e[i + 1] - e[i] for i in range(slices))
    return len(sizes) == 1


def same_dimensions(luma, color_diff, dwt_depth, dwt_depth_ho, slices_x, slices_y):
    """Definition of 'all slices have the same dimensions'.

    True iff, for every component kind and every subband level, all slices have
    equal width and all slices have equal height.  luma / color_diff: (w, h).
    """
    for (w, h) in (luma, color_diff):
        for level, (bw, bh) in sorted(subband_dims(w, h, dwt_depth, dwt_depth_ho).items()):
            if not all_equal_extents(bw, slices_x):
                return False
            if not all_equal_extents(bh, slices_y):
                return False
    return True


def ld_slice_bytes(k, numerator, denominator):
    return ((k + 1) * numerator) // denominator - (k * numerator) // denominator


def ld_picture_bytes(n_slices, numerator, denominator):
    return (n_slices * numerator) // denominator
