#!/bin/sh
# Builds nothing and installs nothing: verifies the interpreter and imports.
cd "$(dirname "$0")" || exit 2
mkdir -p evidence replays
/venv/bin/python - <<'PY'
import sys
sys.path.insert(0, ".")
import mc, numpy, vc2_conformance, vc2_data_tables
print("setup ok:", sys.version.split()[0], vc2_conformance.__file__)
PY
