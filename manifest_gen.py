#!/venv/bin/python
"""Regenerates MANIFEST.json from the table below (run after adding a driver)."""
import json
import os

HERE = os.path.dirname(os.path.abspath(__file__))

# property -> (category, technique, level text, level note, design ref)
CHECKS = {
    "C27": (
        "model_checking",
        "explicit-state search over operation histories on the real fixeddict types (BFS to fixpoint with dedup on full contents + every history to depth 3/4 without dedup) against a plain-dict reference model",
        "Every operation history up to the depth bound over construct/assign/setdefault/update/|=/copy/pickle/delete with declared and undeclared keys is executed on fresh real objects of five fixeddict types and compared step by step with a dict model; exhaustive within the bound, which is the right level because the type has no hidden state beyond its contents (the BFS reaches a fixpoint).",
        "Trusts CPython's dict/pickle/copy; values from a 2-element alphabet; 2 declared + 1 undeclared key per type.",
        "DESIGN.md 6/C27",
    ),
}

CHECKS["C02"] = (
    "fault_enumeration",
    "deviation-bounded exhaustive fault enumeration (0, 1 and header-region 2 deviations from 16 independently built seed streams; all strings <= 2 bytes) through the real validator and its error-reporting methods",
    "Every truncation, byte substitution/deletion/insertion, parse code, parse-offset and field-aware re-encoding of every coded field (and pairs of header-field substitutions / bit-flip pairs in the first bytes) of 16 seed streams is run through the real parse_stream; the verdict must be accept or ConformanceError and explain/offending_offset/bitstream_viewer_hint must succeed. Exhaustive for the stated deviation sets; non-vacuity: >= 50 distinct error classes must be reached.",
    "Seeds come from an independent builder (build/vc2build.py), self-checked against the validator. Streams declaring sizes above the resource bound are set aside. Watchdog 20 s per execution.",
    "DESIGN.md 6/C02",
)
CHECKS["C06"] = (
    "fault_enumeration",
    "deviation-bounded exhaustive fault enumeration through the real Deserialiser then Serialiser; byte-for-byte and description equality on every input that parses to completion",
    "The C02 deviation corpus plus builder streams with dangling bounded-block bits, non-zero alignment padding, clamped LD slice lengths, unknown indices and padding/auxiliary offsets 0..14 (and their 1-byte substitutions): every input the deserialiser parses to completion must re-serialise to identical bytes and re-deserialise to an equal description.",
    "Only inputs parsed without exception are in scope (about 40% of the corpus); resource monitor on declared sizes.",
    "DESIGN.md 6/C06",
)

CHECKS["C18"] = (
    "model_checking",
    "exhaustive enumeration of all pattern syntax trees up to a node bound x all symbol sequences of length 5, real Matcher vs Brzozowski-derivative reference (plus a faithful model of the known-defective automaton used only to attribute known finding F5)",
    "Every pattern AST with <= 5 (quick) / 6 (thorough) nodes over {a, b, .} and ?,*,+,|,concatenation (and '$' tail variants), rendered to text and parsed by the real parser, is run against every sequence in {a,b,c}^5 on a fresh real Matcher; match_symbol, is_complete and valid_next_symbols are compared at every step with a derivative-based reference. The real level and test-case patterns are checked over all 8 data-unit names. Exhaustive within the bound.",
    "Reference = models/regexref.py (own parser + derivatives). A disagreement is attributed to known finding F5 only if the undirected-epsilon Thompson model predicts every observation of that case; anything else is a violation.",
    "DESIGN.md 6/C18",
)
CHECKS["C19"] = (
    "model_checking",
    "exhaustive enumeration of (required list, pattern set, depth limit, priority) inputs to the real make_matching_sequence, judged by a reference shortest-completion search with a visited set",
    "All required lists (<= 3 over {a,b}) x all F5-free patterns <= 4 nodes (and pairs of them) x depth limits x priorities, an epsilon-free union family that exposes greedy behaviour, and the real level x test-case pattern combinations with picture lists: the result must embed the required symbols, match every pattern, have the reference's shortest length; impossibility only when the reference finds nothing within the consecutive-insertion limit.",
    "Known finding F6 (greedy search) is attributed only when the greedy-only reference predicts existence and length exactly; F5 only for real level patterns judged under the defect automaton.",
    "DESIGN.md 6/C19",
)

CHECKS["C01"] = (
    "model_checking",
    "explicit-state breadth-first search over data-unit histories with the real parse_stream as transition function, deduplicated on a projection of the real State paired with the reference state; oracle = independent stream-structure acceptor (models/streamref.py) using true regular-expression semantics",
    "For each of 10 (quick) / 60 (thorough) contexts (profile x major_version x level x coding mode) every history of up to 5 / 6 data units over ~55 / ~95 events (identical/differing headers, pictures, first/continuation fragments with good/bad slice counts, offsets and numbers, padding, auxiliary, end of sequence, foreign-profile units; picture-number rules incl. wrap-around; correct/zero/wrong/inside-header parse offsets) is built by the independent builder, run through the real validator and compared with the reference acceptor; all histories to depth 2 / 3 are additionally enumerated without state merging. Any non-ConformanceError exception is a violation.",
    "Tiny 4:4:4 format with 2 slices per picture; level value tables permissive (ordering patterns real). Known finding F5 attributed only when the reference with the defective automaton predicts the verdict.",
    "DESIGN.md 6/C01",
)

CHECKS["C03"] = (
    "exploration",
    "exhaustive enumeration of stated configuration products through the real encoder, serialiser (automatic field filling) and validator, comparing decoded parameters, counts and picture numbers",
    "Core product (3 modes x 13/49 wavelet pairs x 7 depth pairs) and six secondary products (slices x fragment sizes; colour format x coding mode x scan x frame sizes; signal ranges; quantisation matrix and format variants; picture_bytes around the minimum; content x picture numbers x counts) are each enumerated completely; every configuration is either refused with a typed error or yields a stream the validator accepts whose decoded pictures carry exactly the configured parameters, count and numbers.",
    "Small pictures only; the global cross product of the groups is not covered; validator and encoder share pseudocode (a defect common to both directions is not visible here; see C08/C09/C11).",
    "DESIGN.md 6/C03",
)
CHECKS["C04"] = (
    "exploration",
    "exhaustive enumeration of lossless / qindex-0 configurations x a pixel-value alphabet (constants, an impulse at every position, checkerboards, all 6^4 2x2 luma pictures), encode -> serialise -> decode identity",
    "For every lossless configuration of C03's products, and lossy ones where the encoder's own description shows qindex 0 everywhere, every picture of the content alphabet must decode to exactly the input samples.",
    "Picture area <= 16x8; values from {0,1,mid-1,mid,max-1,max}; quantised lossy cases are set aside and counted.",
    "DESIGN.md 6/C04",
)

CHECKS["C10"] = (
    "model_checking",
    "exhaustive enumeration of all lists (length <= 3/4) over a pool of 17 sequences through the real validator; differential oracle: state reached after other sequences vs the initial state",
    "Every list of pool sequences (12 conformant from different profiles/versions/levels/fragment and numbering styles, 5 non-conformant) up to the length bound is concatenated; the concatenation must be accepted iff all members are, fail with the failing member's own error class, and output exactly the members' own pictures up to that point.",
    "Pool members come from the independent builder and the real encoder; permissive level value tables.",
    "DESIGN.md 6/C10",
)

CHECKS["C08"] = (
    "exploration",
    "exhaustive enumeration of slice payload bit strings (bounded length), an encoder configuration product and every accepted stream of the C02 deviation corpus; differential oracle validator-reader vs Deserialiser on the sequence of primitive values read, plus independent dequantisation/DC-prediction of the deserialiser's coefficients against the validator's transform arrays",
    "For every accepted stream both parsers must read the same sequence of values in the same order (booleans, integers, bytes; padding excluded) and the deserialised coefficients, dequantised by an independent inverse quantiser and DC-predicted, must equal the arrays the validator passes to picture_decode; picture numbers and picture counts must agree.",
    "Validator reads are observed by wrapping its reader functions in-process; default quantisation matrices from vc2_data_tables; payload bound 1 byte per component (2 bytes luma / LD 3-byte slices in thorough).",
    "DESIGN.md 6/C08",
)
CHECKS["C09"] = (
    "exploration",
    "exhaustive enumeration of builder pictures with extreme coefficients over wavelets x depths x formats x bit depths, plus all accepted corpus streams, checked at the output-picture callback",
    "Every picture the validator outputs must have component sizes implied by the header the independent builder wrote, integer samples in [0, 2^depth-1], the coded picture number, and exactly one output per picture unit / completed fragmented picture; coefficients +-2^k (k up to 127) at every position with qindex up to 255.",
    "One slice per picture in builder streams; rotating (covering) assignment of value/qindex combinations outside the 6 full-product configurations.",
    "DESIGN.md 6/C09",
)

CHECKS["C07"] = (
    "exploration",
    "exhaustive enumeration of small stream descriptions x omitted/AUTO/explicit choices through the real autofill_and_serialise_stream; reference autofill rules evaluated directly on the output bytes; cross-check with the validator via the stream-structure reference",
    "All data-unit lists up to 3 (4) units per sequence over 10 unit kinds (one and two sequences) with everything omitted, and all single/pair (triple) deviations of next/previous offset, picture number, major_version (omitted, AUTO, explicit), six version-raising header features and four transform variants on nine base streams: explicit values must appear unchanged, parse offsets must be the true distances found by an independent scan (0 at sequence ends/starts), picture numbers must count from the previous picture per sequence with wrap-around and repeat within fragments, AUTO major_version must be the minimum required, and the validator must accept exactly the structurally valid results.",
    "Descriptions the serialiser refuses are out of scope; tiny explicit frame size.",
    "DESIGN.md 6/C07",
)

CHECKS["C05"] = (
    "exploration",
    "enumeration of a bounded configuration product (thorough: every second configuration plus the core, or the full product with VERIF_C05_FULL=1; quick: fixed core + seed-selected stratum), running every registered decoder test-case generator to exhaustion and judging each test case by a per-family oracle on the real validator's output",
    "For each configuration every decoder test case must serialise, be accepted by the validator, decode with the configured video parameters and have a unique name; encoding-variant families must decode to exactly the plain encoding of the same source, mid-grey families to exact mid-grey, picture_numbers to the documented number lists.",
    "Natural pictures swapped for the suite's small ones; content-changing families get the conformance/parameters oracle only; both tiers are stated subsets of the 8448-configuration product unless VERIF_C05_FULL=1 (evidence says exhaustive: false); the subset is a fixed function of the seed, not a sample drawn at run time.",
    "DESIGN.md 6/C05",
)

CHECKS["C14"] = (
    "exploration",
    "exhaustive enumeration of lossy configurations x every picture_bytes in a window above the minimum x overrides through the real encoder; per-slice minimality judged by an independent quantiser and exp-Golomb length arithmetic; serialised slice layout parsed independently",
    "For every configuration the encoder either refuses (only below the minimum picture_bytes) or every slice's qindex is >= the requested minimum, fits the slice budget while qindex-1 does not, the coded coefficients equal the reference quantisation, length fields fit 8 bits, LD slice data occupies exactly picture_bytes and HQ slice data is within slice_size_scaler bytes of picture_bytes.",
    "Unquantised coefficients come from the encoder's own transform (covered by C04/C11); 8x4 pictures.",
    "DESIGN.md 6/C14",
)

CHECKS["C15"] = (
    "exploration",
    "exhaustive enumeration of every base video format x one-field (two-field) perturbations x coding modes x admitting real levels, and of every header iter_sequence_headers yields for each; validated under the real level value tables and decoded parameters compared",
    "Each of the ~120k (quick) generated headers, wrapped as 'sequence_header, end_of_sequence', must be accepted by the validator under the configured level's real value table and decode to exactly the configured video parameters and picture coding mode; at the unconstrained level at least one header must be generated.",
    "Header-only streams (level ordering patterns swapped for '.*'); known finding F7 (levels 64/65 demand major_version 2) is attributed only to ValueNotAllowedInLevel on key major_version at those levels.",
    "DESIGN.md 6/C15",
)

CHECKS["C16"] = (
    "exploration",
    "exhaustive enumeration of synthetic single-column level tables (every single-key restriction; pairs in thorough) x ordering patterns x 6 codec configurations, installed in-process; real encoder then real validator under the same definition",
    "For every synthetic level definition the encoder must either raise an UnsatisfiableCodecFeaturesError subclass or return a sequence whose serialisation the validator accepts under that same definition.",
    "Restrictions are derived from the values the unrestricted encoding uses; known finding F8 (eight level keys the encoder never consults) is attributed only to a ValueNotAllowedInLevel rejection on one of those keys; real level tables are exercised by C15 (headers).",
    "DESIGN.md 6/C16",
)

CHECKS["C11"] = (
    "exploration",
    "exhaustive enumeration: every array over a 5-letter value alphabet for even lengths up to the bound for all 7 filters (1-D), and all 49 filter pairs x depth pairs x picture sizes x contents incl. an impulse at every position (2-D with padding); round-trip identity plus an independent polyphase reference transform and subband-shape comparison",
    "idwt_pad_removal(idwt(dwt(dwt_pad_addition(p)))) == p and synthesis(analysis(a)) == a for every enumerated input; every dwt/idwt result is also compared with an independent reference lifting implementation, and subband shapes with subband_width/height.",
    "Sample values from {-2^20,-1,0,1,2^20}; sizes <= 5x5 (quick) / 7x7 (thorough) with depths up to 2x2 / 4x3.",
    "DESIGN.md 6/C11",
)
CHECKS["C12"] = (
    "exploration",
    "exhaustive enumeration of the coefficient window [0, 5*qf/4] (both signs) for every index up to 84/100, lifted to all integers by a written periodicity argument; boundary neighbourhoods for indices to 255; monotonicity to index 1023",
    "For every enumerated (index, coefficient): sign kept or zero, 4*|x - dequant(quant(x))| < quant_factor, index 0 exact; implementation equals the standard's closed form; quant_factor strictly increasing for 0..1023 and inverse_quant(1, i) strictly increasing from the tree's MINIMUM_DISTINCT_QINDEX.",
    "Periodicity lemma in models/quantref.py (verified numerically on every run for small indices); indices above the window bound are only covered at boundary neighbourhoods (marked non-exhaustive in evidence).",
    "DESIGN.md 6/C12",
)
CHECKS["C13"] = (
    "exploration",
    "exhaustive enumeration of a per-axis box (extent x dwt_depth x dwt_depth_ho x slices x level x component), a 2-D box for the same-dimensions flag, dwt output shapes, and a numerator x denominator x slices box for slice_bytes",
    "Slice bounds partition every subband into in-order disjoint covering ranges; subband sizes equal the padded picture produced by the real dwt; slices_have_same_dimensions equals its definition; low-delay slice_bytes are non-negative and sum to floor(slices*n/d).",
    "Box: extent <= 64 (160), slices <= 80 (200), depths <= 4; flag box 24x24 (32x32).",
    "DESIGN.md 6/C13",
)
CHECKS["C25"] = (
    "fault_enumeration",
    "exhaustive enumeration of encoder streams (configuration product) and 0/1-deviation sets of builder seeds through the real vc2-bitstream-validator main() in-process; exit status, written files (read back) and located explanation compared with the library decoder",
    "Conformant input: exit 0 and exactly one raw+json pair per decoded picture, indexed from 0 in decode order, whose contents read back equal the library decoder's pictures/parameters, for three output filename patterns; non-conformant: exit 2 with a bit offset, non-empty summary and viewer hint; never status 3 or an escaping exception.",
    "The library decoder decides conformance (bound to the standard by C01/C02); resource bound as C02.",
    "DESIGN.md 6/C25",
)
CHECKS["C26"] = (
    "fault_enumeration",
    "exhaustive enumeration of the 0/1-deviation sets and short strings through the real vc2-bitstream-viewer main() in-process, default options on every input and seven other option sets on a fixed subset",
    "The viewer's status must be 0, 2, 3 or 4 -- never 255 (internal error), never an escaping exception, never exceeding the 30 s horizon.",
    "Declared sizes bounded by the C06 resource monitor on the deserialiser.",
    "DESIGN.md 6/C26",
)

CHECKS["C17"] = (
    "model_checking",
    "explicit-state BFS over ValueSet operation histories to a fixpoint (key = the implementation's own _values/_ranges) against Python sets; exhaustive small constraint tables x partial assignments; the real assert_level_constraint fed key/value sequences; exhaustive small CSV tables",
    "Membership, iteration and disjointness of every reachable ValueSet equal the set model; for every enumerated table allowed_values_for and is_allowed_combination agree with each other and the reference semantics; incremental checking accepts exactly the sequences whose every prefix is allowed; CSV cells (values, ranges, any, ditto, blank) are read back as written.",
    "Universe 0..6 (+True); tables up to 2 (3) columns x 2 keys; CSV 2 rows x up to 3 columns.",
    "DESIGN.md 6/C17",
)
CHECKS["C20"] = (
    "model_checking",
    "exhaustive bit strings (bounded length) x read programs x start bits x bounded-block lengths with three-way agreement (BitstreamReader, validator reader, bit-list model); writer value ranges against the model; explicit-state BFS over reader/writer/validator-reader operation histories keyed on the implementation's own state",
    "Every primitive read returns the same value at the same position in both readers and the model (incl. EOF behaviour and reads past bounded blocks); every write produces the model's bytes, exp-Golomb length functions equal bits written, out-of-range values raise OutOfRangeError with nothing written, 1-bits past a block end are accepted and 0-bits rejected; histories of writes/reads/seeks/tells/flushes/blocks agree with the model.",
    "Bit strings <= 9 (13) bits fully crossed, longer ones on a seed-selected stratum; negative block lengths for the serdes reader only.",
    "DESIGN.md 6/C20",
)
CHECKS["C21"] = (
    "model_checking",
    "exhaustive enumeration of serdes description programs (bounded statements/nesting) from a grammar, each run through the real Serialiser and Deserialiser against an independent interpreter that predicts bits, description tree, types, paths and the first failure",
    "Serialise-then-deserialise yields an equal, equally typed tree with verify_complete passing; every single extra value raises UnusedTargetError, every removed needed value fails unless a default exists (then the default is written); re-used targets raise ReusedTargetError with the first value intact; after every statement path() reaches cur_context.",
    "Programs <= 3 statements fully plus a seed-selected stratum of 4-statement programs (all <= 4 and reduced-grammar 5 in thorough).",
    "DESIGN.md 6/C21",
)
CHECKS["C22"] = (
    "exploration",
    "exhaustive enumeration of pairwise-complete and full structural / colour products of video formats x every picture generator",
    "For every regular format each generator yields >= 1 picture (even count for fields), numbered from 0, every component exactly the coded size and every sample a Python int within the component's bit depth; mid_gray equals 2^(depth-1).",
    "Depths <= 31; irregular formats are out of scope; natural pictures swapped for the suite's small ones.",
    "DESIGN.md 6/C22",
)
CHECKS["C23"] = (
    "exploration",
    "exhaustive enumeration of bit depths 1..64 x geometries x coding modes x sample patterns x picture numbers for the raw+JSON file format; every one-sample / few-sample / one-metadata-field differing pair for the compare tool",
    "read(write(p)) == p with types; bytes on disk equal an independent little-endian planar encoder; compare_pictures reports identical (0) exactly for equal pairs and otherwise the exact per-component differing-pixel counts and the right status class.",
    "Pictures <= 4x4; depths 1-64.",
    "DESIGN.md 6/C23",
)
CHECKS["C28"] = (
    "fault_enumeration",
    "exhaustive one-deviation (every cell x alphabet, every key, every row/column/file edit) and in-column two-deviation enumeration of four seed CSV files plus tiny exhaustive grammars and a raw family (oversized cells, bare CRs), against a domain predicate and an independent reference reader written from the documentation",
    "read_codec_features_csv returns only in-domain configurations (enums, minimums, picture_bytes iff lossy, matrix shape, unique names) or raises InvalidCodecFeaturesError -- never anything else; where the documentation decides, verdict and values equal the reference reader.",
    "csv module trusted to split well-formed text into cells for the reference.",
    "DESIGN.md 6/C28",
)
CHECKS["C24"] = (
    "model_checking",
    "stateless exploration with sleep sets of all interleavings of filesystem scheduling points of real worker processes (pairs exhaustively, triples at preemption bound 2, all workers under structured schedules) under a controlled process scheduler; plus whole-generator runs in fresh interpreters with different hash seeds",
    "Every explored schedule of the real --parallel worker callables (run as real forked processes whose mkdir/stat/listdir/open-for-write/rename/remove on conflict paths are scheduling points) must finish without a worker failing and leave exactly the serial run's output tree (paths and bytes); the serial generator gives byte-identical trees for every PYTHONHASHSEED tried and equals the union of workers run one by one.",
    "Conflict paths come from a recording run of each worker alone; operations on other paths commute; independence = unrelated paths or both non-mutating; sandbox filesystem semantics.",
    "DESIGN.md 6/C24",
)

# Families added after the adversary waves (DESIGN.md 10.1 / 10.5); appended to the level text.
ADDENDA = {
    "C11": " Also: three pictures encoded through ONE State (kept transforms must stay intact and decode to their pictures) and pictures 255-1025 samples wide / tall.",
    "C10": " Members beginning with zero bytes are included, and each member's own verdict is checked against how it was built.",
    "C09": " Every seed stream is also decoded with the output callback given in six representations (function, bound method, partial, callable list, falsy callable, absent).",
    "C07": " Explicit extended transform parameters under an explicit version 3 are read back from the bytes and must be coded as given.",
    "C06": " Also: concatenations of sequences differing only in colour-difference sampling, and re-serialisation over old, longer file contents.",
    "C05": " Also: two-configuration histories in one process, unequal-slice lossless configurations, and a content oracle for lossless_quantization (every coefficient read back as 1).",
    "C03": " Also: 110 histories in which ONE CodecFeatures object (and its nested VideoParameters) is edited in place between two encodes.",
    "C02": " The three reporting methods are independent queries: they are called in one of the six possible orders, chosen per case.",
    "C15": " Also: every ordered pair of configurations within one field group of one base format is run back to back in one process (via make_sequence_header and via abandoned iter_sequence_headers generators), so state leaking between calls is in scope. Empty clean areas (zero width / height) are among the perturbations.",
    "C16": " Also: two-column level definitions (columns admitting different base formats with different frame-rate rules, the shape of the real level 64) and two-step histories (ordered pairs of configurations differing in one field encoded back to back under one level definition). Configurations are also given with plain integers in place of enum members.",
    "C17": " Also: every ragged two-row CSV file (0..3 cells per row) and an operand-aliasing oracle (operands of finished operations are never modified later).",
    "C18": " Every valid_next_symbols() answer is edited in place by the harness and the question asked again.",
    "C19": " Also: rejoin, loop-pair and run families (unions whose sides hold the required symbols adjacent or interleaved).",
    "C20": " Every reader case is repeated on a stream starting 1-3 bytes into its file (positions must shift, values must not). Seek / read histories in a 9000-byte stream (positions around 512, 4096 and 8192) are included.",
    "C21": " Also: every list target replaced by each of 10 non-list values (falsy ones included) and every pair of needed values of one dictionary removed with per-context-type defaults. Every deserialised description is edited in place by the harness after it was checked (nothing may be shared with later results); computed_value() is exercised with 13 value representations.",
    "C22": " Index-valued entries are given both as enum members and as the plain integers the sequence-header parser stores. Pictures are consumed lazily and scribbled on before the next one is requested.",
    "C23": " Also: sample-edit comparisons repeated with a difference mask requested, and histories of 2-3 formats written / read / compared through one VideoParameters object edited in place. Directory mode is run with directory names containing glob / regex / shell characters (with and without look-alike siblings), and a file is replaced in place (same size and modification time) between two comparisons.",
    "C24": " A second, two-configuration CSV (default cells, explicit quantisation matrix) is run serially, as workers one by one, and serially under other hash seeds; all trees must agree. Renames count as a step on both their paths.",
    "C25": " The reported bit offset must be the one the decoder nominates and the .raw bytes must equal the documented planar layout (mixed byte widths included). main() is entered with the interpreter's default integer-digit limit in force, and conformant streams carrying values of more than 4300 digits are included.",
    "C27": " Also: copy-with-overrides construction T(existing, key=value) and reference cycles through fixeddicts (8 shapes x pickle protocols 0-5 and deepcopy, structure compared including identities). Operands of another fixeddict type and forged pickle streams (undeclared keys via __reduce__ state or a renamed key) are included.",
    "C28": " Also: oversized cells and bare carriage returns (raw family), cross-column files, unknown rows with format-special names, explicit names colliding with default column names.",
}

NOT_YET = "check not built yet in this revision (planned, see DESIGN.md section 6)"


def main():
    props = [json.loads(l) for l in open(os.path.join(HERE, "properties.jsonl"))]
    checks = []
    na = []
    for p in props:
        pid = p["id"]
        if pid in CHECKS and os.path.exists(os.path.join(HERE, "props", pid.lower() + ".py")):
            cat, tech, text, note, ref = CHECKS[pid]
            text = text + ADDENDA.get(pid, "")
            checks.append(
                {
                    "property_id": pid,
                    "quick_cmd": "./check %s --tier quick" % pid,
                    "thorough_cmd": "./check %s --tier thorough" % pid,
                    "evidence_file": "evidence/%s.json" % pid,
                    "replay_cmd_template": "./check %s --replay {path}" % pid,
                    "engine": "mc",
                    "level_claimed": {"category": cat, "text": text, "design_ref": ref},
                    "level_note": note,
                    "technique": tech,
                }
            )
        else:
            na.append({"property_id": pid, "reason": NOT_YET})
    m = {
        "version": 1,
        "setup_cmd": "./setup.sh",
        "hooks": {
            "guard": "BBC_VC2_CONFORMANCE_VERIF",
            "enable": "no source hooks: every seam is reached by in-process wrapping from the harness (module-namespace substitution); the repository is imported from /repo's working tree (editable install)",
            "baseline_off_cmd": "cd /repo && /venv/bin/python -m pytest -ra -q -p no:cacheprovider --timeout=900 --continue-on-collection-errors",
            "source_commits": [],
            "add_only": True,
        },
        "engines": [
            {
                "name": "mc",
                "path": "mc/",
                "serves_properties": [c["property_id"] for c in checks],
                "kind_free_text": "hand-written bounded-exhaustive explorer for Python: explicit-state BFS over operation histories replayed on fresh real objects, index-addressable product/deviation spaces sharded over 16 forked workers, reference-model oracles, replay files",
            }
        ],
        "checks": checks,
        "notes": "All checks run the real code from /repo's working tree. Known findings in known_findings.json; design in DESIGN.md.",
        "not_applicable": na,
    }
    with open(os.path.join(HERE, "MANIFEST.json"), "w") as f:
        json.dump(m, f, indent=1)
        f.write("\n")
    print("MANIFEST.json: %d checks, %d not claimed" % (len(checks), len(na)))


if __name__ == "__main__":
    main()
