#!/venv/bin/python
"""Prints a markdown table of what the last run of every check covered (from evidence/*.json)."""
import glob
import json
import os

HERE = os.path.dirname(os.path.dirname(os.path.abspath(__file__)))
rows = []
for f in sorted(glob.glob(os.path.join(HERE, "evidence", "C*.json"))):
    e = json.load(open(f))
    c = e["coverage"]
    if e["level"] == "model_checking":
        size = "%s states / %s transitions / %s traces" % (c.get("states"), c.get("transitions"), c.get("traces_validated_against_impl"))
    else:
        size = "%s evaluations / %s distinct non-trivial" % (c.get("evaluations"), c.get("distinct_nontrivial"))
    kf = ", ".join("%s x%d" % (k, v["count"]) for k, v in sorted(c.get("known_findings", {}).items())) or "-"
    rows.append("| %s | %s | %s | %s | %s | %s | %.0f s |" % (e["property_id"], e["level"], e["tier"], size, "yes" if c.get("exhaustive") else "no (stated subset)", kf, e["wall_s"]))
print("| check | level | tier | covered | exhaustive within bounds | known findings hit | wall |")
print("|---|---|---|---|---|---|---|")
print("\n".join(rows))
