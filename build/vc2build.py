"""Independent VC-2 bit writer and data-unit builder.

Shares no code with bbc/vc2_conformance.  Written from SMPTE ST 2042-1 (stream
syntax sections 10-14 and annex A).  Every data unit is a *token list* so that
field-aware mutations (replace one coded field, re-encode, following bits
shift) are possible without re-deriving the unit.

Token kinds
    ("u", v)        unsigned interleaved exp-Golomb
    ("s", v)        signed interleaved exp-Golomb
    ("b", v)        single bit / boolean
    ("n", k, v)     k-bit fixed width unsigned
    ("lit", k, v)   k-byte big-endian literal
    ("bits", str)   raw bits, e.g. "1101"
    ("bytes", b)    raw bytes
    ("align",)      zero-pad to a byte boundary
Tokens may carry a trailing name (string) used only to address them.
"""

PARSE_INFO_PREFIX = b"BBCD"

PC_SEQUENCE_HEADER = 0x00
PC_END_OF_SEQUENCE = 0x10
PC_AUXILIARY_DATA = 0x20
PC_PADDING_DATA = 0x30
PC_LD_PICTURE = 0xC8
PC_HQ_PICTURE = 0xE8
PC_LD_FRAGMENT = 0xCC
PC_HQ_FRAGMENT = 0xEC

PROFILE_LD = 0
PROFILE_HQ = 3

PARSE_CODE_NAMES = {
    0x00: "sequence_header",
    0x10: "end_of_sequence",
    0x20: "auxiliary_data",
    0x30: "padding_data",
    0xC8: "low_delay_picture",
    0xE8: "high_quality_picture",
    0xCC: "low_delay_picture_fragment",
    0xEC: "high_quality_picture_fragment",
}


# ----------------------------------------------------------------------------
# Bit level
# ----------------------------------------------------------------------------
def uint_bits(v):
    """Interleaved exp-Golomb code of v >= 0 as a bit string (A.4.3)."""
    assert v >= 0
    b = bin(v + 1)[3:]  # binary digits after the leading one
    return "".join("0" + d for d in b) + "1"


def sint_bits(v):
    if v == 0:
        return "1"
    return uint_bits(abs(v)) + ("1" if v < 0 else "0")


def nbits(k, v):
    assert 0 <= v < (1 << k) or k == 0 and v == 0, (k, v)
    return format(v, "0%db" % k) if k else ""


def token_bits(tok, position):
    """Bits for one token given the current bit position (needed by align)."""
    kind = tok[0]
    if kind == "u":
        return uint_bits(tok[1])
    if kind == "s":
        return sint_bits(tok[1])
    if kind == "b":
        return "1" if tok[1] else "0"
    if kind == "n":
        return nbits(tok[1], tok[2])
    if kind == "lit":
        return nbits(8 * tok[1], tok[2])
    if kind == "bits":
        return tok[1]
    if kind == "bytes":
        return "".join(format(x, "08b") for x in tok[1])
    if kind == "align":
        return "0" * (-position % 8)
    raise ValueError(tok)


def encode_tokens(tokens, pad="0"):
    """Token list -> bytes (final partial byte padded with `pad`)."""
    out = []
    pos = 0
    for tok in tokens:
        b = token_bits(tok, pos)
        out.append(b)
        pos += len(b)
    s = "".join(out)
    s += pad * (-len(s) % 8)
    return bits_to_bytes(s)


def bits_to_bytes(s):
    assert len(s) % 8 == 0
    return int(s, 2).to_bytes(len(s) // 8, "big") if s else b""


def bytes_to_bits(b):
    return "".join(format(x, "08b") for x in b)


def intlog2(n):
    """ceil(log2(n)) for n >= 1 (5.5.3)."""
    return (n - 1).bit_length()


# ----------------------------------------------------------------------------
# Formats
# ----------------------------------------------------------------------------
class Fmt(dict):
    """Coding format used by the builder (plain dict with attribute access)."""

    __getattr__ = dict.__getitem__

    def but(self, **kw):
        f = Fmt(self)
        f.update(kw)
        return f


def tiny_format(**kw):
    """A tiny 4:4:4 custom format on base video format 0."""
    f = Fmt(
        major_version=2,
        minor_version=0,
        profile=PROFILE_HQ,
        level=0,
        base_video_format=0,
        frame_width=4,
        frame_height=2,
        color_diff_format_index=0,  # 4:4:4 (None = don't override 4:2:0 of base format 0)
        source_sampling=None,
        frame_rate=None,  # None | ("preset", i) | ("custom", n, d)
        pixel_aspect_ratio=None,
        clean_area="frame",  # None | (w, h, l, t) | "frame" = whole frame
        signal_range=None,  # None | ("preset", i) | ("custom", lo, le, co, ce)
        color_spec=None,  # None | ("preset", i) | ("custom", primaries|None, matrix|None, tf|None)
        picture_coding_mode=0,
        # transform
        wavelet_index=4,
        wavelet_index_ho=None,  # None = symmetric (flag False when ETP present)
        dwt_depth=0,
        dwt_depth_ho=None,
        slices_x=2,
        slices_y=1,
        slice_bytes_numerator=4,
        slice_bytes_denominator=1,
        slice_prefix_bytes=0,
        slice_size_scaler=1,
        quant_matrix=None,  # None = default; else flat list in bitstream order
        # base format 0 facts needed for geometry / signal range
        luma_depth=8,
        color_diff_depth=8,
    )
    f.update(kw)
    return f


def sequence_header_tokens(f):
    t = [
        ("u", f.major_version, "major_version"),
        ("u", f.minor_version, "minor_version"),
        ("u", f.profile, "profile"),
        ("u", f.level, "level"),
        ("u", f.base_video_format, "base_video_format"),
    ]
    # frame_size
    if f.frame_width is not None:
        t += [("b", 1, "custom_dimensions_flag"), ("u", f.frame_width, "frame_width"), ("u", f.frame_height, "frame_height")]
    else:
        t += [("b", 0, "custom_dimensions_flag")]
    if f.color_diff_format_index is not None:
        t += [("b", 1, "custom_color_diff_format_flag"), ("u", f.color_diff_format_index, "color_diff_format_index")]
    else:
        t += [("b", 0, "custom_color_diff_format_flag")]
    if f.source_sampling is not None:
        t += [("b", 1, "custom_scan_format_flag"), ("u", f.source_sampling, "source_sampling")]
    else:
        t += [("b", 0, "custom_scan_format_flag")]
    fr = f.frame_rate
    if fr is None:
        t += [("b", 0, "custom_frame_rate_flag")]
    elif fr[0] == "preset":
        t += [("b", 1, "custom_frame_rate_flag"), ("u", fr[1], "frame_rate_index")]
    else:
        t += [("b", 1, "custom_frame_rate_flag"), ("u", 0, "frame_rate_index"), ("u", fr[1], "frame_rate_numer"), ("u", fr[2], "frame_rate_denom")]
    par = f.pixel_aspect_ratio
    if par is None:
        t += [("b", 0, "custom_pixel_aspect_ratio_flag")]
    elif par[0] == "preset":
        t += [("b", 1, "custom_pixel_aspect_ratio_flag"), ("u", par[1], "pixel_aspect_ratio_index")]
    else:
        t += [("b", 1, "custom_pixel_aspect_ratio_flag"), ("u", 0, "pixel_aspect_ratio_index"), ("u", par[1], "par_numer"), ("u", par[2], "par_denom")]
    ca = f.clean_area
    if ca == "frame":
        ca = (f.frame_width, f.frame_height, 0, 0)
    if ca is None:
        t += [("b", 0, "custom_clean_area_flag")]
    else:
        t += [("b", 1, "custom_clean_area_flag")] + [("u", v, n) for v, n in zip(ca, ("clean_width", "clean_height", "left_offset", "top_offset"))]
    sr = f.signal_range
    if sr is None:
        t += [("b", 0, "custom_signal_range_flag")]
    elif sr[0] == "preset":
        t += [("b", 1, "custom_signal_range_flag"), ("u", sr[1], "custom_signal_range_index")]
    else:
        t += [("b", 1, "custom_signal_range_flag"), ("u", 0, "custom_signal_range_index")] + [
            ("u", v, n) for v, n in zip(sr[1:], ("luma_offset", "luma_excursion", "color_diff_offset", "color_diff_excursion"))
        ]
    cs = f.color_spec
    if cs is None:
        t += [("b", 0, "custom_color_spec_flag")]
    elif cs[0] == "preset":
        t += [("b", 1, "custom_color_spec_flag"), ("u", cs[1], "color_spec_index")]
    else:
        t += [("b", 1, "custom_color_spec_flag"), ("u", 0, "color_spec_index")]
        for v, n in zip(cs[1:], ("color_primaries", "color_matrix", "transfer_function")):
            if v is None:
                t += [("b", 0, "custom_%s_flag" % n)]
            else:
                t += [("b", 1, "custom_%s_flag" % n), ("u", v, n + "_index")]
    t += [("u", f.picture_coding_mode, "picture_coding_mode")]
    return t


def has_etp(f):
    return f.major_version >= 3


def transform_parameters_tokens(f):
    t = [("u", f.wavelet_index, "wavelet_index"), ("u", f.dwt_depth, "dwt_depth")]
    if has_etp(f):
        if f.wavelet_index_ho is not None:
            t += [("b", 1, "asym_transform_index_flag"), ("u", f.wavelet_index_ho, "wavelet_index_ho")]
        else:
            t += [("b", 0, "asym_transform_index_flag")]
        if f.dwt_depth_ho is not None:
            t += [("b", 1, "asym_transform_flag"), ("u", f.dwt_depth_ho, "dwt_depth_ho")]
        else:
            t += [("b", 0, "asym_transform_flag")]
    t += [("u", f.slices_x, "slices_x"), ("u", f.slices_y, "slices_y")]
    if f.profile == PROFILE_LD:
        t += [("u", f.slice_bytes_numerator, "slice_bytes_numerator"), ("u", f.slice_bytes_denominator, "slice_bytes_denominator")]
    else:
        t += [("u", f.slice_prefix_bytes, "slice_prefix_bytes"), ("u", f.slice_size_scaler, "slice_size_scaler")]
    if f.quant_matrix is None:
        t += [("b", 0, "custom_quant_matrix")]
    else:
        t += [("b", 1, "custom_quant_matrix")] + [("u", v, "quant_matrix_%d" % i) for i, v in enumerate(f.quant_matrix)]
    return t


# ----------------------------------------------------------------------------
# Geometry (13.x, 15.x): independent closed forms
# ----------------------------------------------------------------------------
def component_dims(f, comp):
    """(width, height) of one coded picture component (11.6.2)."""
    w, h = f.frame_width, f.frame_height
    if f.picture_coding_mode == 1:
        h //= 2
    cdf = f.color_diff_format_index
    if cdf is None:
        cdf = f.get("base_color_diff_format_index", 2)
    if comp != "Y":
        if cdf in (1, 2):
            w //= 2
        if cdf == 2:
            h //= 2
    return w, h


def subband_dims(f, comp, level):
    """(width, height) of the subbands of `level` (13.2.3)."""
    w, h = component_dims(f, comp)
    dd, ddh = f.dwt_depth, (f.dwt_depth_ho or 0)
    scale_w = 1 << (ddh + dd)
    scale_h = 1 << dd
    pw = scale_w * ((w + scale_w - 1) // scale_w)
    ph = scale_h * ((h + scale_h - 1) // scale_h)
    if level == 0:
        sw = pw // (1 << (ddh + dd))
    else:
        sw = pw // (1 << (ddh + dd - level + 1))
    if level <= ddh:
        sh = ph // (1 << dd)
    else:
        sh = ph // (1 << (ddh + dd - level + 1))
    return sw, sh


def band_list(f):
    """[(level, orient)] in bitstream order (13.5.3.1 / 13.5.4)."""
    dd, ddh = f.dwt_depth, (f.dwt_depth_ho or 0)
    if ddh == 0:
        out = [(0, "LL")]
    else:
        out = [(0, "L")] + [(l, "H") for l in range(1, ddh + 1)]
    for l in range(ddh + 1, ddh + dd + 1):
        out += [(l, "HL"), (l, "LH"), (l, "HH")]
    return out


def slice_band_count(f, comp, level, sx, sy):
    sw, sh = subband_dims(f, comp, level)
    x1 = (sw * sx) // f.slices_x
    x2 = (sw * (sx + 1)) // f.slices_x
    y1 = (sh * sy) // f.slices_y
    y2 = (sh * (sy + 1)) // f.slices_y
    return (x2 - x1) * (y2 - y1)


def slice_coeff_count(f, comp, sx, sy):
    return sum(slice_band_count(f, comp, lv, sx, sy) for lv, _ in band_list(f))


def ld_slice_bytes(f, sx, sy):
    n = sy * f.slices_x + sx
    num, den = f.slice_bytes_numerator, f.slice_bytes_denominator
    return ((n + 1) * num) // den - (n * num) // den


# ----------------------------------------------------------------------------
# Slices
# ----------------------------------------------------------------------------
def hq_slice_tokens(f, sx, sy, qindex=0, coeffs=None, payloads=None, prefix=None):
    """HQ slice.  coeffs = (y, c1, c2) lists of ints (quantised values) or
    payloads = three raw bit strings (each a whole number of scaler bytes)."""
    t = []
    pfx = prefix if prefix is not None else bytes(f.slice_prefix_bytes)
    assert len(pfx) == f.slice_prefix_bytes
    if pfx:
        t.append(("bytes", pfx, "prefix"))
    t.append(("lit", 1, qindex, "qindex"))
    for i, name in enumerate(("y", "c1", "c2")):
        if payloads is not None:
            bits = payloads[i]
        elif coeffs is not None:
            bits = "".join(sint_bits(v) for v in coeffs[i])
        else:
            bits = ""
        unit = 8 * f.slice_size_scaler
        nunits = (len(bits) + unit - 1) // unit
        bits = bits + "0" * (nunits * unit - len(bits))
        assert nunits <= 255
        t.append(("lit", 1, nunits, "slice_%s_length" % name))
        if bits:
            t.append(("bits", bits, "slice_%s_data" % name))
    return t


def ld_slice_tokens(f, sx, sy, qindex=0, y_coeffs=None, c_coeffs=None, y_bits=None, c_bits=None, slice_y_length=None, fill="1"):
    """LD slice occupying exactly ld_slice_bytes() bytes.

    c_coeffs is the interleaved c1,c2 list.  Missing bits are filled with `fill`.
    """
    total = 8 * ld_slice_bytes(f, sx, sy)
    length_bits = intlog2(total - 7)
    avail = total - 7 - length_bits
    if y_bits is None:
        y_bits = "".join(sint_bits(v) for v in (y_coeffs or []))
    if c_bits is None:
        c_bits = "".join(sint_bits(v) for v in (c_coeffs or []))
    if slice_y_length is None:
        slice_y_length = len(y_bits)
    assert slice_y_length < (1 << length_bits), "slice_y_length does not fit its field"
    body = (y_bits + fill * slice_y_length)[:slice_y_length] if slice_y_length <= avail else (y_bits + fill * avail)[:avail]
    rest = avail - len(body)
    body += (c_bits + fill * rest)[:rest]
    return [
        ("n", 7, qindex, "qindex"),
        ("n", length_bits, slice_y_length, "slice_y_length"),
        ("bits", body, "slice_data"),
    ]


def slice_tokens(f, sx, sy, **kw):
    if f.profile == PROFILE_LD:
        return ld_slice_tokens(f, sx, sy, **kw)
    return hq_slice_tokens(f, sx, sy, **kw)


# ----------------------------------------------------------------------------
# Data units
# ----------------------------------------------------------------------------
class Unit(object):
    """One data unit: parse code + payload tokens + offset rules.

    npo / ppo: "auto" (true distance; 0 for the last unit of a sequence / first
    unit of a sequence) or an int, or ("delta", d) = true distance + d.
    """

    def __init__(self, code, tokens=(), npo="auto", ppo="auto", tag=None):
        self.code = code
        self.tokens = list(tokens)
        self.npo = npo
        self.ppo = ppo
        self.tag = tag

    def copy(self):
        return Unit(self.code, list(self.tokens), self.npo, self.ppo, self.tag)

    def payload(self):
        return encode_tokens(self.tokens)

    @property
    def name(self):
        return PARSE_CODE_NAMES.get(self.code, "code_%02x" % self.code)

    def __repr__(self):
        return "Unit(%s,%r,npo=%r,ppo=%r)" % (self.name, self.tag, self.npo, self.ppo)


def parse_info_bytes(code, npo, ppo):
    return PARSE_INFO_PREFIX + bytes([code & 0xFF]) + (npo & 0xFFFFFFFF).to_bytes(4, "big") + (ppo & 0xFFFFFFFF).to_bytes(4, "big")


def seq_header(f, **kw):
    return Unit(PC_SEQUENCE_HEADER, sequence_header_tokens(f), tag="SH", **kw)


def end_of_sequence(**kw):
    return Unit(PC_END_OF_SEQUENCE, [], tag="EOS", **kw)


def padding(data=b"", **kw):
    return Unit(PC_PADDING_DATA, [("bytes", bytes(data), "data")] if data else [], tag="PAD", **kw)


def auxiliary(data=b"\x00", **kw):
    return Unit(PC_AUXILIARY_DATA, [("bytes", bytes(data), "data")] if data else [], tag="AUX", **kw)


def all_slices_tokens(f, slice_kw=None, first=0, count=None):
    n = f.slices_x * f.slices_y
    count = n - first if count is None else count
    t = []
    for i in range(first, first + count):
        sx, sy = i % f.slices_x, i // f.slices_x
        kw = slice_kw(sx, sy) if callable(slice_kw) else (slice_kw or {})
        t += [tok[:-1] + ("s%d.%s" % (i, tok[-1]),) for tok in slice_tokens(f, sx, sy, **kw)]
    return t


def picture(f, picture_number=0, slice_kw=None, **kw):
    code = PC_LD_PICTURE if f.profile == PROFILE_LD else PC_HQ_PICTURE
    t = [("lit", 4, picture_number & 0xFFFFFFFF, "picture_number")]
    t += transform_parameters_tokens(f)
    t += [("align",)]
    t += all_slices_tokens(f, slice_kw)
    return Unit(code, t, tag="PIC", **kw)


def fragment_first(f, picture_number=0, **kw):
    code = PC_LD_FRAGMENT if f.profile == PROFILE_LD else PC_HQ_FRAGMENT
    tp = transform_parameters_tokens(f)
    t = [
        ("lit", 4, picture_number & 0xFFFFFFFF, "picture_number"),
        ("lit", 2, 0, "fragment_data_length"),
        ("lit", 2, 0, "fragment_slice_count"),
    ] + tp
    return Unit(code, t, tag="FRAG0", **kw)


def fragment_slices(f, picture_number, first, count, slice_kw=None, x_offset=None, y_offset=None, **kw):
    code = PC_LD_FRAGMENT if f.profile == PROFILE_LD else PC_HQ_FRAGMENT
    sl = all_slices_tokens(f, slice_kw, first, count)
    t = [
        ("lit", 4, picture_number & 0xFFFFFFFF, "picture_number"),
        ("lit", 2, len(encode_tokens(sl)) & 0xFFFF, "fragment_data_length"),
        ("lit", 2, count, "fragment_slice_count"),
        ("lit", 2, (first % f.slices_x) if x_offset is None else x_offset, "fragment_x_offset"),
        ("lit", 2, (first // f.slices_x) if y_offset is None else y_offset, "fragment_y_offset"),
    ] + sl
    return Unit(code, t, tag="FRAG%d@%d" % (count, first), **kw)


def fragmented_picture(f, picture_number=0, slices_per_fragment=1, slice_kw=None):
    n = f.slices_x * f.slices_y
    units = [fragment_first(f, picture_number)]
    i = 0
    while i < n:
        c = min(slices_per_fragment, n - i)
        units.append(fragment_slices(f, picture_number, i, c, slice_kw))
        i += c
    return units


def assemble(units):
    """Concatenate units into a stream, resolving offset rules.

    The true distance to the next parse_info is 13 + len(payload).  "auto"
    next_parse_offset is that distance, except 0 for end_of_sequence; "auto"
    previous_parse_offset is the previous unit's true length, 0 for the first
    unit of the stream and for a unit directly following an end_of_sequence.
    """
    out = bytearray()
    prev_len = None
    prev_was_eos = True
    for u in units:
        payload = u.payload() if not isinstance(u, RawUnit) else u.raw_payload
        true_next = 13 + len(payload)
        if isinstance(u, RawUnit) and u.whole is not None:
            out += u.whole
            prev_len = len(u.whole)
            prev_was_eos = False
            continue
        if u.npo == "auto":
            npo = 0 if u.code == PC_END_OF_SEQUENCE else true_next
        elif isinstance(u.npo, tuple):
            npo = true_next + u.npo[1]
        else:
            npo = u.npo
        true_prev = 0 if prev_was_eos else prev_len
        if u.ppo == "auto":
            ppo = true_prev
        elif isinstance(u.ppo, tuple):
            ppo = true_prev + u.ppo[1]
        else:
            ppo = u.ppo
        out += parse_info_bytes(u.code, npo, ppo) + payload
        prev_len = true_next
        prev_was_eos = u.code == PC_END_OF_SEQUENCE
    return bytes(out)


class RawUnit(Unit):
    """A unit whose payload (or whole bytes incl. parse_info) is given literally."""

    def __init__(self, code, raw_payload=b"", whole=None, **kw):
        Unit.__init__(self, code, [], **kw)
        self.raw_payload = bytes(raw_payload)
        self.whole = whole

    def payload(self):
        return self.raw_payload

    def copy(self):
        return RawUnit(self.code, self.raw_payload, self.whole, npo=self.npo, ppo=self.ppo, tag=self.tag)


def walk_parse_infos(data):
    """Independent chain walker: [(offset, code, npo, ppo)] following next offsets.

    Falls back to scanning for the prefix when next_parse_offset is 0 on a
    non-final unit.
    """
    out = []
    pos = 0
    n = len(data)
    while pos + 13 <= n and data[pos : pos + 4] == PARSE_INFO_PREFIX:
        code = data[pos + 4]
        npo = int.from_bytes(data[pos + 5 : pos + 9], "big")
        ppo = int.from_bytes(data[pos + 9 : pos + 13], "big")
        out.append((pos, code, npo, ppo))
        if npo == 0:
            nxt = data.find(PARSE_INFO_PREFIX, pos + 13)
            if code == PC_END_OF_SEQUENCE:
                nxt = pos + 13
            if nxt < 0:
                break
            pos = nxt
        else:
            pos += npo
    return out


def simple_stream(f, n_pictures=1, fragments=0, first_picture_number=0, slice_kw=None, extra=()):
    """SH, pictures (or fragmented pictures), EOS."""
    units = [seq_header(f)]
    for i in range(n_pictures):
        pn = (first_picture_number + i) & 0xFFFFFFFF
        if fragments:
            units += fragmented_picture(f, pn, fragments, slice_kw)
        else:
            units.append(picture(f, pn, slice_kw))
        units += [u.copy() for u in extra]
    units.append(end_of_sequence())
    return units


# ----------------------------------------------------------------------------
# Independent bit reader (used by oracles that inspect serialised output)
# ----------------------------------------------------------------------------
class BitR(object):
    def __init__(self, data, byte_offset=0):
        self.bits = bytes_to_bits(data)
        self.pos = 8 * byte_offset

    def bit(self):
        b = self.bits[self.pos]
        self.pos += 1
        return 1 if b == "1" else 0

    def nbits(self, n):
        v = int(self.bits[self.pos : self.pos + n], 2) if n else 0
        self.pos += n
        return v

    def uint(self):
        v = 1
        while self.bit() == 0:
            v = (v << 1) | self.bit()
        return v - 1

    def align(self):
        self.pos += -self.pos % 8

    @property
    def byte_pos(self):
        assert self.pos % 8 == 0
        return self.pos // 8


def read_transform_parameters(r, major_version, profile):
    """Parse transform_parameters (12.4) from a BitR; returns a dict."""
    tp = {"wavelet_index": r.uint(), "dwt_depth": r.uint(), "wavelet_index_ho": None, "dwt_depth_ho": 0}
    if major_version >= 3:
        if r.bit():
            tp["wavelet_index_ho"] = r.uint()
        if r.bit():
            tp["dwt_depth_ho"] = r.uint()
    tp["slices_x"] = r.uint()
    tp["slices_y"] = r.uint()
    if profile == PROFILE_LD:
        tp["slice_bytes_numerator"] = r.uint()
        tp["slice_bytes_denominator"] = r.uint()
    else:
        tp["slice_prefix_bytes"] = r.uint()
        tp["slice_size_scaler"] = r.uint()
    tp["custom_quant_matrix"] = r.bit()
    if tp["custom_quant_matrix"]:
        n = 1 + tp["dwt_depth_ho"] + 3 * tp["dwt_depth"]
        tp["quant_matrix"] = [r.uint() for _ in range(n)]
    return tp
