"""Seed streams and deviation enumerators shared by C02, C06, C25, C26.

A *case* is a small tuple descriptor `(seed_index, kind, *args)` from which the
bytes are regenerated (`materialise`).  Every enumerator is complete for its
stated alphabet: nothing here samples.
"""
import functools
import io

import mc  # noqa
from build import vc2build as B

T = B.tiny_format


def _seed_defs():
    hq = T()
    hq3 = T(major_version=3)
    ld1 = T(profile=B.PROFILE_LD, major_version=1, dwt_depth=1, wavelet_index=1, slice_bytes_numerator=13, slice_bytes_denominator=2)
    ld3 = T(profile=B.PROFILE_LD, major_version=3, slices_x=2, slices_y=2, frame_height=4, slice_bytes_numerator=3, slice_bytes_denominator=1)
    coeff = lambda sx, sy: {"qindex": 3, "coeffs": ([5, -3, 0, 1], [0, 0, 2, 0], [-1, 0, 0, 0])}  # noqa
    ldcoeff = lambda sx, sy: {"qindex": 2, "y_coeffs": [3, -1, 0, 2], "c_coeffs": [1, 0, 0, -2, 0, 0, 0, 1]}  # noqa
    seeds = []

    def add(name, units, pairs=False):
        seeds.append((name, units, pairs))

    add("hq2-2pics", B.simple_stream(hq, 2), True)
    add("ld1-dwt1", B.simple_stream(ld1, 1, slice_kw=ldcoeff), True)
    add("hq2-dwt1-coeffs", B.simple_stream(hq.but(dwt_depth=1, wavelet_index=0), 1, slice_kw=coeff))
    add("hq3-frag1", B.simple_stream(hq3, 2, fragments=1), True)
    add("ld3-frag2", B.simple_stream(ld3, 1, fragments=2), True)
    add("hq2-fields", B.simple_stream(hq.but(picture_coding_mode=1, frame_height=4), 2))
    add("hq2-custom-qm", B.simple_stream(hq.but(dwt_depth=1, wavelet_index=3, quant_matrix=[0, 1, 1, 2]), 1, slice_kw=coeff))
    add("hq3-asym", B.simple_stream(hq3.but(wavelet_index_ho=1, dwt_depth_ho=1, dwt_depth=1, quant_matrix=[0, 1, 2, 2, 3]), 1))
    add("hq3-presets", B.simple_stream(hq3.but(frame_rate=("preset", 12), signal_range=("preset", 5), color_spec=("preset", 5)), 1))
    add(
        "hq2-custom-everything",
        B.simple_stream(
            hq.but(
                source_sampling=1,
                frame_rate=("custom", 25, 2),
                pixel_aspect_ratio=("custom", 3, 2),
                clean_area=(2, 1, 1, 1),
                signal_range=("custom", 16, 219, 128, 224),
                color_spec=("custom", 1, 2, 1),
                slice_prefix_bytes=1,
                slice_size_scaler=2,
            ),
            1,
            slice_kw=lambda sx, sy: {"qindex": 0, "coeffs": ([1, 2], [3], [-4])},
        ),
    )
    add("hq2-pad-aux", B.simple_stream(hq, 1, extra=[B.padding(b"\x00\x01"), B.auxiliary(b"BBCD"), B.padding(b"")]))
    add("two-sequences", B.simple_stream(hq, 1) + B.simple_stream(ld1, 1, first_picture_number=0xFFFFFFFF))
    add("repeated-headers", [B.seq_header(hq), B.seq_header(hq), B.picture(hq, 7), B.seq_header(hq), B.picture(hq, 8), B.end_of_sequence()])
    add("hq3-frag-mixed", [B.seq_header(hq3), B.picture(hq3, 4)] + B.fragmented_picture(hq3, 5, 2) + [B.padding(b"x"), B.end_of_sequence()])
    add("empty-seq", [B.seq_header(hq3), B.end_of_sequence()])
    add("420-fields-ld", B.simple_stream(ld1.but(color_diff_format_index=2, frame_width=4, frame_height=8, picture_coding_mode=1, dwt_depth=1), 2))
    # transform parameters that change from picture to picture within one sequence (legal: they are
    # coded per picture) -- anything cached across pictures must be keyed on all of them
    def pics(f0, variants, frag=()):
        units = [B.seq_header(f0)]
        for i, kw in enumerate(variants):
            f = f0.but(**kw)
            if i in frag:
                units += B.fragmented_picture(f, i, 1 if i % 2 else 2)
            else:
                units.append(B.picture(f, i))
        units.append(B.end_of_sequence())
        return units

    hq3w = hq3.but(frame_width=8, frame_height=4)
    add("hq3-varying-depth", pics(hq3w, [dict(dwt_depth=2, wavelet_index=1), dict(dwt_depth=1, wavelet_index=1), dict(dwt_depth=0), dict(dwt_depth=2, wavelet_index=3)], frag=(1, 3)))
    add("hq3-varying-slices-and-ho", pics(hq3w, [dict(slices_x=2, slices_y=1), dict(slices_x=1, slices_y=2, dwt_depth=1, dwt_depth_ho=1, quant_matrix=[0, 1, 1, 1, 2]), dict(slices_x=2, slices_y=2, dwt_depth=1), dict(slices_x=4, slices_y=1, dwt_depth_ho=2, quant_matrix=[0, 1, 2])], frag=(2,)))
    ld3w = T(profile=B.PROFILE_LD, major_version=3, frame_width=8, frame_height=4)
    add("ld3-varying-slice-bytes", pics(ld3w, [dict(slice_bytes_numerator=4), dict(slice_bytes_numerator=9, slice_bytes_denominator=2, dwt_depth=1, wavelet_index=1), dict(slices_x=1, slice_bytes_numerator=7), dict(dwt_depth=2, wavelet_index=2, slice_bytes_numerator=11)], frag=(3,)))
    # header-only streams at the specialised levels: their field mutations reach the level-table
    # rejections (ValueNotAllowedInLevel on profile / major_version / base format ...)
    for lv, bvf, prof, mv in ((64, 13, B.PROFILE_LD, 2), (65, 9, B.PROFILE_LD, 2), (66, 17, B.PROFILE_HQ, 2), (3, 14, B.PROFILE_HQ, 2)):
        f = T(level=lv, base_video_format=bvf, profile=prof, major_version=mv, frame_width=None, color_diff_format_index=None, clean_area=None)
        add("level%d-header-only" % lv, [B.seq_header(f), B.end_of_sequence()], True)
    return seeds


@functools.lru_cache(maxsize=None)
def seeds():
    return _seed_defs()


@functools.lru_cache(maxsize=None)
def seed_bytes(i):
    return B.assemble(seeds()[i][1])


def n_seeds():
    return len(seeds())


# ---------------------------------------------------------------------------
# Real-encoder seeds (serialised by the code under test; used as extra inputs)
# ---------------------------------------------------------------------------
@functools.lru_cache(maxsize=None)
def encoder_seed_bytes():
    out = []
    try:
        from props import encfeat

        for cf in encfeat.corpus_configs():
            out.append((cf["name"], encfeat.encode_stream(cf)))
    except ImportError:
        pass
    return out


# ---------------------------------------------------------------------------
# Deviations
# ---------------------------------------------------------------------------
SUB_QUICK = "flip8+00+ff+inc+dec"


def byte_values(orig, tier):
    if tier == "thorough":
        return [v for v in range(256) if v != orig]
    vals = []
    for b in range(8):
        vals.append(orig ^ (1 << b))
    for v in (0x00, 0xFF, (orig + 1) & 0xFF, (orig - 1) & 0xFF):
        if v != orig and v not in vals:
            vals.append(v)
    return vals


HUGE = 1 << 20000  # an exp-Golomb value of > 6000 decimal digits in a ~5 kB stream
U_VALUES = list(range(0, 21)) + [255, 256, 65535, 65536, (1 << 32) - 1, 1 << 32, 1 << 40, "HUGE"]  # "HUGE" is resolved when the bytes are built
S_VALUES = [0, 1, -1, 2, -2, 255, -255, 1 << 31, -(1 << 31)]


def token_values(tok, reduced=False):
    kind = tok[0]
    if kind == "u":
        cur = tok[1]
        vals = [0, 1, 2, cur + 1, 1 << 16] if reduced else U_VALUES[:-1] + [cur + 1] + U_VALUES[-1:]
    elif kind == "s":
        cur = tok[1]
        vals = [0, 1, -1] if reduced else S_VALUES
    elif kind == "b":
        cur = tok[1]
        vals = [0, 1]
    elif kind == "n":
        cur = tok[2]
        k = tok[1]
        if k == 0:
            return []
        m = (1 << k) - 1
        vals = list(range(m + 1)) if (k <= 7 and not reduced) else [0, 1, m, m - 1, (cur + 1) & m]
    elif kind == "lit":
        cur = tok[2]
        m = (1 << (8 * tok[1])) - 1
        vals = [0, 1, 2, m, (cur + 1) & m] if reduced else [0, 1, 2, 3, 255 & m, 256 & m, m, m - 1, (cur + 1) & m, (cur - 1) & m]
    else:
        return []
    out = []
    for v in vals:
        if v != cur and v not in out:
            out.append(v)
    return out  # (may contain the symbolic value "HUGE")


def with_token_value(tok, v):
    if v == "HUGE":
        v = HUGE
    if tok[0] in ("n", "lit"):
        return (tok[0], tok[1], v) + tuple(tok[3:])
    return (tok[0], v) + tuple(tok[2:])


def is_header_token(tok):
    name = tok[-1] if isinstance(tok[-1], str) else ""
    return not (len(name) > 1 and name[0] == "s" and name[1].isdigit())


PI_VALUES = {"npo": [0, 1, 12, 13, 14, ("delta", 1), ("delta", -1), 0xFFFFFFFF], "ppo": [0, 13, ("delta", 1), ("delta", -1), 0xFFFFFFFF]}


def enumerate_cases(tier, parts=None):
    """All case descriptors for the tier (deterministic order)."""
    quick = tier != "thorough"
    cases = []
    want = lambda p: parts is None or p in parts  # noqa
    for si, (name, units, pairs) in enumerate(seeds()):
        data = seed_bytes(si)
        n = len(data)
        if want("id"):
            cases.append((si, "id"))
        if want("trunc"):
            for k in range(n):
                cases.append((si, "trunc", k))
        if want("sub"):
            for pos in range(n):
                for v in byte_values(data[pos], tier):
                    cases.append((si, "sub", pos, v))
        if want("del"):
            for pos in range(n):
                cases.append((si, "del", pos))
        if want("ins"):
            for pos in range(n + 1):
                for v in (0x00, 0xFF, 0x42):
                    cases.append((si, "ins", pos, v))
        if want("code"):
            off = 0
            for ui, u in enumerate(units):
                for code in range(256):
                    if code != u.code:
                        cases.append((si, "code", ui, code))
        if want("pi"):
            for ui, u in enumerate(units):
                for fld in ("npo", "ppo"):
                    for v in PI_VALUES[fld]:
                        cases.append((si, "pi", ui, fld, v))
        if want("tok"):
            for ui, u in enumerate(units):
                for ti, tok in enumerate(u.tokens):
                    for v in token_values(tok):
                        cases.append((si, "tok", ui, ti, v))
        if want("tok2") and (pairs or not quick):
            sites = []
            for ui, u in enumerate(units):
                for fld in ("npo", "ppo"):
                    sites.append((ui, fld, PI_VALUES[fld][:5] if quick else PI_VALUES[fld]))
                for ti, tok in enumerate(u.tokens):
                    if is_header_token(tok) and (not quick or u.code != B.PC_SEQUENCE_HEADER or ti < 4):
                        vals = token_values(tok, reduced=True)
                        if vals:
                            sites.append((ui, ti, vals))
            for a in range(len(sites)):
                for b in range(a + 1, len(sites)):
                    if quick and sites[b][0] - sites[a][0] > 2:
                        continue  # quick: pairs within neighbouring units
                    for va in sites[a][2]:
                        for vb in sites[b][2]:
                            cases.append((si, "tok2", sites[a][0], sites[a][1], va, sites[b][0], sites[b][1], vb))
        if want("flip2") and (not quick or si < 2):
            nb = min(n, 24 if quick else 40) * 8
            for a in range(nb):
                for b in range(a + 1, nb):
                    cases.append((si, "flip2", a, b))
    if want("short"):
        for ln in (0, 1, 2):
            for v in range(256 ** ln):
                cases.append((-1, "short", ln, v))
        for code in range(256):
            for npo in (0, 12, 13, 14):
                for ppo in (0, 13):
                    cases.append((-1, "pi13", code, npo, ppo))
    if want("enc"):
        for ei, (name, data) in enumerate(encoder_seed_bytes()):
            cases.append((-2, "enc-id", ei))
            for k in range(len(data)):
                cases.append((-2, "enc-trunc", ei, k))
            for pos in range(len(data)):
                for v in byte_values(data[pos], "quick"):
                    cases.append((-2, "enc-sub", ei, pos, v))
    return cases


def _apply_site(units, ui, site, v):
    u = units[ui] = units[ui].copy()
    if site == "npo":
        u.npo = tuple(v) if isinstance(v, (list, tuple)) else v
    elif site == "ppo":
        u.ppo = tuple(v) if isinstance(v, (list, tuple)) else v
    else:
        u.tokens[site] = with_token_value(u.tokens[site], v)


def materialise(case):
    """Case descriptor -> bytes."""
    case = tuple(case)
    si, kind = case[0], case[1]
    if kind == "short":
        ln, v = case[2], case[3]
        return v.to_bytes(ln, "big") if ln else b""
    if kind == "pi13":
        return B.parse_info_bytes(case[2], case[3], case[4])
    if kind.startswith("enc-"):
        data = encoder_seed_bytes()[case[2]][1]
        if kind == "enc-id":
            return data
        if kind == "enc-trunc":
            return data[: case[3]]
        if kind == "enc-sub":
            return data[: case[3]] + bytes([case[4]]) + data[case[3] + 1 :]
    data = seed_bytes(si)
    if kind == "id":
        return data
    if kind == "trunc":
        return data[: case[2]]
    if kind == "sub":
        return data[: case[2]] + bytes([case[3]]) + data[case[2] + 1 :]
    if kind == "del":
        return data[: case[2]] + data[case[2] + 1 :]
    if kind == "ins":
        return data[: case[2]] + bytes([case[3]]) + data[case[2] :]
    if kind == "flip2":
        b = bytearray(data)
        for bit in (case[2], case[3]):
            b[bit // 8] ^= 0x80 >> (bit % 8)
        return bytes(b)
    units = list(seeds()[si][1])
    if kind == "code":
        off = sum(13 + len(u.payload()) for u in units[: case[2]])
        assert data[off : off + 4] == B.PARSE_INFO_PREFIX
        return data[: off + 4] + bytes([case[3]]) + data[off + 5 :]
    if kind == "pi":
        _apply_site(units, case[2], case[3], case[4])
        return B.assemble(units)
    if kind == "tok":
        _apply_site(units, case[2], case[3], case[4])
        return B.assemble(units)
    if kind == "tok2":
        _apply_site(units, case[2], case[3], case[4])
        _apply_site(units, case[5], case[6], case[7])
        return B.assemble(units)
    raise ValueError(case)
