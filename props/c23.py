"""C23 -- raw picture files round-trip and comparisons are exact.

Exhaustive product over bit depths 1..64 (luma/chroma independently from
{d, 8, 64}), tiny picture geometries, coding modes, sample patterns and picture
numbers (DESIGN.md section 6, C23).  Oracles, all written from
docs/source/user_guide/file_format.rst and the compare tool's documentation:

* round trip: ``read(write(p)) == p`` (sample values as Python ints, video
  parameters with their enum types, coding mode, picture number); the bytes on
  disk equal an independent little-endian planar encoder; the JSON has the
  documented structure; the file size is sum(w*h*bytes_per_sample);
* compare tool: for every pair (P, P') differing in exactly one sample (every
  position; +1, -1, to an extreme), in 2 or 3 samples, in exactly one metadata
  field, only in the padding bits, or in nothing, ``compare_pictures`` must
  return exit code 0 and "identical" exactly when samples and metadata match,
  else the right exit-code class (1/2/3 metadata, 4 samples) and per-component
  differing-pixel counts equal to the harness's own count.
"""
import itertools
import json
import os
import re
import shutil
import tempfile
import warnings

import mc
from mc import pool
from mc.tally import Tally

PROPERTY = "C23"
LEVEL = "exploration"
ASSUMPTIONS = [
    "picture geometries are tiny (at most 4x4 luma samples); bit depths 1..64 only",
    "depth is selected through excursion = 2^d-1 (and 2^(d-1), the smallest excursion of that depth)",
    "each compared pair differs in exactly one respect (1-3 samples, one metadata field, or padding bits only)",
    "PSNR figures printed by the compare tool are only required to parse as numbers",
    "scratch files live in a tempfile.mkdtemp directory under /tmp that is removed at exit",
]

COMPONENTS = ("Y", "C1", "C2")

# (frame_width, frame_height, color_diff_format_index, picture_coding_mode)
GEOMETRIES = [
    (1, 1, 0, 0),
    (2, 2, 0, 0),
    (2, 2, 0, 1),
    (3, 2, 0, 0),
    (3, 2, 0, 1),
    (4, 2, 1, 0),
    (4, 2, 1, 1),
    (4, 4, 2, 0),
    (4, 4, 2, 1),
]

PIC_NUMS = [0, 1, 1 << 31, (1 << 32) - 1]
QUICK_MIXED_DEPTHS = (1, 7, 9, 10, 16, 17, 32, 33, 63, 64)
QUICK_COMPARE_GEOMETRIES = (0, 2, 3, 6, 7)  # every format and both coding modes once

MASK_DEPTHS = ((8, 8), (10, 10), (10, 8), (1, 1), (64, 64))

BASE_FIELDS = [
    ("frame_width", None),
    ("frame_height", None),
    ("color_diff_format_index", None),
    ("source_sampling", 0),
    ("top_field_first", True),
    ("frame_rate_numer", 25),
    ("frame_rate_denom", 1),
    ("pixel_aspect_ratio_numer", 1),
    ("pixel_aspect_ratio_denom", 1),
    ("clean_width", None),
    ("clean_height", None),
    ("left_offset", 0),
    ("top_offset", 0),
    ("luma_offset", 0),
    ("luma_excursion", None),
    ("color_diff_offset", 0),
    ("color_diff_excursion", None),
    ("color_primaries_index", 0),
    ("color_matrix_index", 0),
    ("transfer_function_index", 0),
]
FIELD_NAMES = [n for n, _ in BASE_FIELDS]


# ----------------------------------------------------------------------------
# Independent reference (from the file format documentation)
# ----------------------------------------------------------------------------


def ref_depth(excursion):
    """intlog2(excursion + 1): smallest d with 2^d >= excursion + 1."""
    return int(excursion).bit_length()


def ref_bytes_per_sample(depth):
    """Smallest power-of-two number of bytes in which `depth` bits fit."""
    n = 1
    while n * 8 < depth:
        n *= 2
    return n


def ref_dims(vp, pcm):
    """{component: (width, height, depth, bytes_per_sample)} as documented."""
    lw, lh = vp["frame_width"], vp["frame_height"]
    cw, ch = lw, lh
    if int(vp["color_diff_format_index"]) == 1:
        cw //= 2
    if int(vp["color_diff_format_index"]) == 2:
        cw //= 2
        ch //= 2
    if int(pcm) == 1:
        lh //= 2
        ch //= 2
    ld = ref_depth(vp["luma_excursion"])
    cd = ref_depth(vp["color_diff_excursion"])
    return {
        "Y": (lw, lh, ld, ref_bytes_per_sample(ld)),
        "C1": (cw, ch, cd, ref_bytes_per_sample(cd)),
        "C2": (cw, ch, cd, ref_bytes_per_sample(cd)),
    }


def ref_encode(picture, dims, padding=0):
    """Planar, raster order, little endian, LSB aligned.  `padding` != 0 fills
    the unused high bits with ones (never produced by a correct writer)."""
    out = bytearray()
    for c in COMPONENTS:
        w, h, depth, bps = dims[c]
        pad = ((1 << (bps * 8)) - 1) ^ ((1 << depth) - 1) if padding else 0
        for row in picture[c]:
            for v in row:
                out += int(v | pad).to_bytes(bps, "little")
    return bytes(out)


def ref_file_size(dims):
    return sum(dims[c][0] * dims[c][1] * dims[c][3] for c in COMPONENTS)


# ----------------------------------------------------------------------------
# Case construction (plain data in, real objects out)
# ----------------------------------------------------------------------------


def plain_vp(geom, luma_exc, chroma_exc):
    w, h, cfmt, _pcm = geom
    d = {}
    for name, default in BASE_FIELDS:
        d[name] = default
    d["frame_width"] = w
    d["frame_height"] = h
    d["clean_width"] = w
    d["clean_height"] = h
    d["color_diff_format_index"] = cfmt
    d["luma_excursion"] = luma_exc
    d["color_diff_excursion"] = chroma_exc
    return d


def real_vp(plain):
    """Real VideoParameters with enum-typed entries, as `read` documents."""
    from vc2_conformance.pseudocode.video_parameters import VideoParameters
    import vc2_data_tables as t

    enums = {
        "color_diff_format_index": t.ColorDifferenceSamplingFormats,
        "source_sampling": t.SourceSamplingModes,
        "color_primaries_index": t.PresetColorPrimaries,
        "color_matrix_index": t.PresetColorMatrices,
        "transfer_function_index": t.PresetTransferFunctions,
    }
    vp = VideoParameters()
    for name in FIELD_NAMES:
        v = plain[name]
        if name in enums:
            v = enums[name](v)
        vp[name] = v
    return vp, enums


def byte_boundary_values(depth):
    vals = []
    for k in range(1, 9):
        for v in ((1 << (8 * k)) - 1, 1 << (8 * k)):
            if v <= (1 << depth) - 1:
                vals.append(v)
    return vals or [0]


PATTERNS = ["zero", "one", "max", "max-1", "alternating", "byte-boundaries", "index", "descending", "high-bit"]


def make_picture(pattern, dims, pic_num):
    pic = {"pic_num": pic_num}
    for ci, c in enumerate(COMPONENTS):
        w, h, depth, _bps = dims[c]
        m = (1 << depth) - 1
        bb = byte_boundary_values(depth)
        rows = []
        for y in range(h):
            row = []
            for x in range(w):
                i = y * w + x
                if pattern == "zero":
                    v = 0
                elif pattern == "one":
                    v = 1
                elif pattern == "max":
                    v = m
                elif pattern == "max-1":
                    v = max(0, m - 1)
                elif pattern == "alternating":
                    v = m if (x + y + ci) % 2 else 0
                elif pattern == "byte-boundaries":
                    v = bb[(i + ci) % len(bb)]
                elif pattern == "index":
                    # a different value at every position and component
                    v = ((i + 1) * 0x0123456789ABCDEF + ci * 0x1111111111111111 + (i << 56)) & m
                elif pattern == "descending":
                    v = m >> ((i + ci) % (depth + 1))
                elif pattern == "high-bit":
                    v = (1 << (depth - 1)) | (i & (m >> 1))
                else:
                    raise ValueError(pattern)
                row.append(v)
            rows.append(row)
        pic[c] = rows
    return pic


def depth_pairs():
    s = set()
    for d in range(1, 65):
        for l in (d, 8, 64):
            for c in (d, 8, 64):
                s.add((l, c))
    return sorted(s)


def excursions_for(depth, form):
    if form == "full":
        return (1 << depth) - 1
    return 1 << (depth - 1)  # smallest excursion with that depth


# ----------------------------------------------------------------------------
# Executing one case against the real code
# ----------------------------------------------------------------------------


def _unlink_pair(path):
    """Remove <name>.raw and <name>.json first: rewriting an existing file in
    place (truncate + write) forces a synchronous flush on ext4
    (auto_da_alloc), creating a fresh file does not."""
    base = os.path.splitext(path)[0]
    for ext in (".raw", ".json"):
        try:
            os.unlink(base + ext)
        except FileNotFoundError:
            pass


def _write_real(picture, plain, pcm, path):
    from vc2_conformance.file_format import write
    from vc2_data_tables import PictureCodingModes

    vp, _ = real_vp(plain)
    _unlink_pair(path)
    write(picture, vp, PictureCodingModes(pcm), path)


def run_roundtrip(case, d):
    """Returns (problems, nontrivial)."""
    from vc2_conformance.file_format import read
    from vc2_conformance.pseudocode.video_parameters import VideoParameters
    from vc2_data_tables import PictureCodingModes

    geom = tuple(case["geom"])
    pcm = geom[3]
    plain = plain_vp(geom, case["luma_exc"], case["chroma_exc"])
    dims = ref_dims(plain, pcm)
    pic = make_picture(case["pattern"], dims, case["pic_num"])
    path = os.path.join(d, "a.raw")
    problems = []
    try:
        _write_real(pic, plain, pcm, path)
    except Exception as e:  # noqa
        return ["write raised %s: %s" % (type(e).__name__, e)], False
    with open(path, "rb") as f:
        raw = f.read()
    if len(raw) != ref_file_size(dims):
        problems.append("raw file is %d bytes, expected %d" % (len(raw), ref_file_size(dims)))
    expect = ref_encode(pic, dims)
    if raw != expect:
        problems.append("raw file bytes %s differ from reference encoding %s" % (raw.hex(), expect.hex()))
    try:
        with open(os.path.join(d, "a.json"), "rb") as f:
            meta = json.loads(f.read().decode("utf-8"))
        if sorted(meta) != ["picture_coding_mode", "picture_number", "video_parameters"]:
            problems.append("metadata keys %r" % sorted(meta))
        else:
            if meta["picture_number"] != str(case["pic_num"]) or not isinstance(meta["picture_number"], str):
                problems.append("metadata picture_number %r" % (meta["picture_number"],))
            if meta["picture_coding_mode"] != pcm or isinstance(meta["picture_coding_mode"], bool):
                problems.append("metadata picture_coding_mode %r" % (meta["picture_coding_mode"],))
            if meta["video_parameters"] != plain:
                problems.append("metadata video_parameters %r != %r" % (meta["video_parameters"], plain))
            for k, v in meta["video_parameters"].items():
                want = bool if k == "top_field_first" else int
                if type(v) is not want:
                    problems.append("metadata %s has JSON type %s" % (k, type(v).__name__))
    except Exception as e:  # noqa
        problems.append("metadata file unreadable: %s: %s" % (type(e).__name__, e))
    try:
        pic2, vp2, pcm2 = read(path)
    except Exception as e:  # noqa
        problems.append("read raised %s: %s" % (type(e).__name__, e))
        return problems, False
    if pic2 != pic:
        problems.append("picture read back %r != written %r" % (pic2, pic))
    else:
        for c in COMPONENTS:
            for row in pic2[c]:
                for v in row:
                    if type(v) is not int:
                        problems.append("sample of type %s in %s" % (type(v).__name__, c))
                        break
        if type(pic2["pic_num"]) is not int:
            problems.append("pic_num of type %s" % type(pic2["pic_num"]).__name__)
        if sorted(pic2) != ["C1", "C2", "Y", "pic_num"]:
            problems.append("picture keys %r" % sorted(pic2))
    vp, enums = real_vp(plain)
    if type(vp2) is not VideoParameters or dict(vp2) != dict(vp):
        problems.append("video parameters read back %r != %r" % (vp2, vp))
    else:
        for name in FIELD_NAMES:
            want = enums.get(name) or type(plain[name])
            if type(vp2[name]) is not want:
                problems.append("video parameter %s read back as %s, expected %s" % (name, type(vp2[name]).__name__, want.__name__))
    if type(pcm2) is not PictureCodingModes or pcm2 != pcm:
        problems.append("picture coding mode read back %r" % (pcm2,))
    nontrivial = any(v for c in COMPONENTS for row in pic[c] for v in row)
    return problems, nontrivial


LINE_RE = re.compile(r"^\s*(Y|C1|C2): (Identical|Different: PSNR = (\S+) dB, (\d+) (pixels?) \(([0-9.]+)%\) (differs?))$")


def positions(dims):
    out = []
    for c in COMPONENTS:
        w, h = dims[c][0], dims[c][1]
        for y in range(h):
            for x in range(w):
                out.append((c, y, x))
    return out


def apply_edit(case, plain, pcm, pic):
    """Returns (plain', pcm', pic', padding, expected) for the second file.

    expected: ("identical",) | ("samples", {comp: count}) | ("meta", field) |
    ("pcm",) | ("pic_num",)
    """
    edit = case["edit"]
    kind = edit["type"]
    plain2 = dict(plain)
    pic2 = {c: [list(r) for r in pic[c]] for c in COMPONENTS}
    pic2["pic_num"] = pic["pic_num"]
    if kind == "none":
        return plain2, pcm, pic2, 0, ("identical",)
    if kind == "padding":
        return plain2, pcm, pic2, 1, ("identical",)
    if kind == "samples":
        counts = {c: 0 for c in COMPONENTS}
        seen = set()
        for c, y, x, v in edit["changes"]:
            if (c, y, x) in seen:
                raise ValueError("duplicate position in edit")
            seen.add((c, y, x))
            if pic2[c][y][x] != v:
                counts[c] += 1
            pic2[c][y][x] = v
        if not any(counts.values()):
            return plain2, pcm, pic2, 0, ("identical",)
        return plain2, pcm, pic2, 0, ("samples", counts)
    if kind == "pic_num":
        pic2["pic_num"] = edit["value"]
        return plain2, pcm, pic2, 0, ("pic_num",)
    if kind == "pcm":
        pcm2 = 1 - pcm
        dims2 = ref_dims(plain2, pcm2)
        pic2 = make_picture(case["pattern"], dims2, pic["pic_num"])
        return plain2, pcm2, pic2, 0, ("pcm",)
    if kind == "meta":
        plain2[edit["field"]] = edit["value"]
        dims2 = ref_dims(plain2, pcm)
        pic2 = make_picture(case["pattern"], dims2, pic["pic_num"])
        return plain2, pcm, pic2, 0, ("meta", edit["field"])
    raise ValueError(kind)


def run_compare(case, d, a_cache=None):
    """Returns (problems, outcome class).

    a_cache: optional dict owned by one shard; lets consecutive cases that
    share the first picture skip rewriting the (identical) first file.
    """
    from vc2_conformance.scripts.vc2_picture_compare import compare_pictures

    geom = tuple(case["geom"])
    pcm = geom[3]
    plain = plain_vp(geom, case["luma_exc"], case["chroma_exc"])
    dims = ref_dims(plain, pcm)
    pic = make_picture(case["pattern"], dims, case["pic_num"])
    plain2, pcm2, pic2, padding, expected = apply_edit(case, plain, pcm, pic)
    a = os.path.join(d, "a.raw")
    b = os.path.join(d, "b.raw")
    a_key = mc.tally.dumps([case["geom"], case["luma_exc"], case["chroma_exc"], case["pattern"], case["pic_num"]])
    try:
        if a_cache is None or a_cache.get("key") != a_key:
            _write_real(pic, plain, pcm, a)
            if a_cache is not None:
                a_cache["key"] = a_key
        _write_real(pic2, plain2, pcm2, b)
        if padding:
            os.unlink(b)
            with open(b, "wb") as f:
                f.write(ref_encode(pic2, ref_dims(plain2, pcm2), padding=1))
    except Exception as e:  # noqa
        return ["write raised %s: %s" % (type(e).__name__, e)], "error"
    maskfile = os.path.join(d, "mask.raw") if case.get("mask") else None
    try:
        if maskfile:
            _unlink_pair(maskfile)
            with warnings.catch_warnings():
                warnings.simplefilter("ignore", RuntimeWarning)  # numpy cast warning while drawing a 64-bit mask
                msg, code = compare_pictures(a, b, maskfile)
        else:
            msg, code = compare_pictures(a, b)
    except BaseException as e:  # noqa -- includes SystemExit from the tool
        return ["compare_pictures raised %s: %s" % (type(e).__name__, e)], "error"
    problems = []
    # (the mask's own contents are outside C23's statement and are not judged here)
    lines = msg.split("\n")
    if expected[0] == "identical":
        if code != 0:
            problems.append("equal pictures: exit code %r, message %r" % (code, msg))
        if lines[-1].strip() != "Pictures are identical":
            problems.append("equal pictures: message %r" % (msg,))
        if not padding and len(lines) != 1:
            problems.append("byte-identical files: extra output %r" % (msg,))
        return problems, "identical-padding" if padding else "identical"
    if code == 0 or lines[-1].strip() == "Pictures are identical":
        problems.append("pictures differ (%r) but tool says exit %r, %r" % (expected, code, msg))
        return problems, "missed"
    if expected[0] == "samples":
        if code != 4:
            problems.append("sample difference: exit code %r, expected 4 (%r)" % (code, msg))
        if lines[0].strip() != "Pictures are different:":
            problems.append("sample difference: first line %r" % (lines[0],))
        got = {}
        for ln in lines[1:]:
            m = LINE_RE.match(ln)
            if not m:
                problems.append("unparseable line %r" % (ln,))
                continue
            if m.group(2) == "Identical":
                got[m.group(1)] = 0
            else:
                n = int(m.group(4))
                got[m.group(1)] = n
                try:
                    float(m.group(3))
                except ValueError:
                    problems.append("PSNR %r is not a number" % (m.group(3),))
                size = dims[m.group(1)][0] * dims[m.group(1)][1]
                if m.group(6) != "%.1f" % (n * 100.0 / size):
                    problems.append("percentage %s for %d of %d pixels" % (m.group(6), n, size))
                if (m.group(5) == "pixel") != (n == 1) or (m.group(7) == "differs") != (n == 1):
                    problems.append("plural form wrong in %r" % (ln,))
        if got != expected[1]:
            problems.append("differing pixel counts reported %r, actual %r (message %r)" % (got, expected[1], msg))
        return problems, "samples:" + ",".join(c for c in COMPONENTS if expected[1][c])
    want_code = {"meta": 1, "pcm": 2, "pic_num": 3}[expected[0]]
    if code != want_code:
        problems.append("%s difference: exit code %r, expected %d (%r)" % (expected[0], code, want_code, msg))
    head = {"meta": "Video parameters are different:", "pcm": "Picture coding modes are different:", "pic_num": "Picture numbers are different:"}[expected[0]]
    if lines[0].strip() != head:
        problems.append("%s difference: first line %r" % (expected[0], lines[0]))
    if expected[0] == "meta":
        field = expected[1]
        minus = [ln.strip() for ln in lines[1:] if ln.strip().startswith("- ")]
        plus = [ln.strip() for ln in lines[1:] if ln.strip().startswith("+ ")]
        if len(minus) != 1 or len(plus) != 1 or not minus[0].startswith("- %s: " % field) or not plus[0].startswith("+ %s: " % field):
            problems.append("diff lines for %s: -%r +%r" % (field, minus, plus))
    return problems, expected[0] + (":" + expected[1] if expected[0] == "meta" else "")


# ----------------------------------------------------------------------------
# Histories on one shared, in-place edited VideoParameters object
# ----------------------------------------------------------------------------

# (geometry index, luma excursion, colour-difference excursion)
HISTORY_FORMATS = [(1, 255, 255), (1, 1023, 1023), (1, 1023, 255), (5, 255, 255), (7, 255, 255), (1, 65535, 65535), (2, 131071, 255)]


def run_history(case, d):
    """A caller keeps ONE VideoParameters object and edits it in place between calls
    (format A, then B, then C ...).  Every write / read / compare must behave as it would
    with a fresh object: an earlier call must not leak into a later one."""
    from vc2_conformance.file_format import read, write, read_metadata
    from vc2_conformance.scripts.vc2_picture_compare import compare_pictures
    from vc2_data_tables import PictureCodingModes

    vp = None
    problems = []
    for i, fi in enumerate(case["formats"]):
        gi, le, ce = HISTORY_FORMATS[fi]
        geom = GEOMETRIES[gi]
        pcm = geom[3]
        plain = plain_vp(geom, le, ce)
        fresh, _ = real_vp(plain)
        if vp is None:
            vp = fresh
        elif case["reuse"] == "inplace":
            for k in FIELD_NAMES:
                vp[k] = fresh[k]
        elif case["reuse"] == "metadata":
            # the object handed back by the library for the previous file, edited in place
            for k in FIELD_NAMES:
                vp[k] = fresh[k]
        dims = ref_dims(plain, pcm)
        pic = make_picture("index", dims, i)
        a = os.path.join(d, "h%d.raw" % i)
        b = os.path.join(d, "h%db.raw" % i)
        _unlink_pair(a)
        _unlink_pair(b)
        try:
            write(pic, vp, PictureCodingModes(pcm), a)
            with open(a, "rb") as f:
                raw = f.read()
            if raw != ref_encode(pic, dims):
                problems.append("step %d (%r): raw bytes %s differ from the reference encoding %s" % (i, HISTORY_FORMATS[fi], raw.hex(), ref_encode(pic, dims).hex()))
                break
            pic_r, vp_r, pcm_r = read(a)
            if pic_r != pic or dict(vp_r) != dict(fresh) or pcm_r != pcm:
                problems.append("step %d (%r): read back differs from written" % (i, HISTORY_FORMATS[fi]))
                break
            # second picture differing in the last sample of each component
            pic2 = {c: [list(r) for r in pic[c]] for c in COMPONENTS}
            pic2["pic_num"] = i
            want = {}
            for c in COMPONENTS:
                pic2[c][-1][-1] ^= 1
                want[c] = 1
            write(pic2, vp, PictureCodingModes(pcm), b)
            msg, code = compare_pictures(a, b)
            got = {}
            for ln in msg.split("\n")[1:]:
                m = LINE_RE.match(ln)
                if m:
                    got[m.group(1)] = 0 if m.group(2) == "Identical" else int(m.group(4))
            if code != 4 or got != want:
                problems.append("step %d (%r): compare of pictures differing in one sample per component: exit %r, counts %r (%r)" % (i, HISTORY_FORMATS[fi], code, got, msg))
                break
            msg, code = compare_pictures(a, a)
            if code != 0:
                problems.append("step %d: a file compared with itself: exit %r" % (i, code))
                break
            if case["reuse"] == "metadata":
                with open(os.path.splitext(a)[0] + ".json", "rb") as f:
                    vp, _pcm, _pn = read_metadata(f)
        except Exception as e:  # noqa
            problems.append("step %d (%r) raised %s: %s" % (i, HISTORY_FORMATS[fi], type(e).__name__, e))
            break
    return problems


DIR_NAMES = ["plain", "out[1]", "q*", "x?y", "sp ace", "[ab]", "a{b}", "dot.d"]
DIR_DECOYS = {"out[1]": "out1", "q*": "qq", "x?y": "xzy", "[ab]": "a", "sp ace": "sp_ace", "a{b}": "ab", "dot.d": "dotxd", "plain": "plain2"}


def run_dirmode(case, d):
    """Directory mode of the command: main([dir_a, dir_b]) with directory names that contain
    characters special to glob / regex / shells, with and without a look-alike sibling directory."""
    import contextlib
    import io as _io2

    from vc2_conformance.scripts.vc2_picture_compare import main

    name, decoy, differ = case["name"], case["decoy"], case["differ"]
    root = os.path.join(d, "dirmode")
    shutil.rmtree(root, ignore_errors=True)
    os.makedirs(root)
    geom = GEOMETRIES[5]
    pcm = geom[3]
    plain = plain_vp(geom, 255, 255)
    dims = ref_dims(plain, pcm)
    dir_a = os.path.join(root, "ref")
    dir_b = os.path.join(root, name)
    os.makedirs(dir_a)
    os.makedirs(dir_b)
    pics = [make_picture("index", dims, n) for n in range(2)]
    for n, pic in enumerate(pics):
        _write_real(pic, plain, pcm, os.path.join(dir_a, "pic_%d.raw" % n))
        pb = {c: [list(r) for r in pic[c]] for c in COMPONENTS}
        pb["pic_num"] = n
        if differ and n == 1:
            pb["Y"][0][0] ^= 1
        _write_real(pb, plain, pcm, os.path.join(dir_b, "pic_%d.raw" % n))
    if decoy:
        dd = os.path.join(root, DIR_DECOYS[name])
        os.makedirs(dd)
        for n, pic in enumerate(pics):
            _write_real(pic, plain, pcm, os.path.join(dd, "pic_%d.raw" % n))
    problems = []
    for args in ([dir_a, dir_b], [dir_b, dir_a]):
        out, err = _io2.StringIO(), _io2.StringIO()
        try:
            with contextlib.redirect_stdout(out), contextlib.redirect_stderr(err):
                code = main(args)
        except SystemExit as e:
            code = "SystemExit(%r): %s" % (e.code, err.getvalue().strip()[:100])
        except Exception as e:  # noqa
            code = "%s: %s" % (type(e).__name__, e)
        want = 4 if differ else 0
        summary = "Summary: %d identical, %d different" % ((1, 1) if differ else (2, 0))
        if code != want or summary not in out.getvalue():
            problems.append("directories %r: exit %r, output ends %r; expected exit %d and %r" % ([os.path.basename(a) for a in args], code, out.getvalue().strip().split("\n")[-1][:80], want, summary))
            break
    shutil.rmtree(root, ignore_errors=True)
    return problems


def dirmode_cases():
    return [{"kind": "dirmode", "name": n, "decoy": dc, "differ": df} for n in DIR_NAMES for dc in (False, True) for df in (False, True)]


def run_rewrite(case, d):
    """compare(a, b); then b is replaced at the same path by another picture of the same size
    with its modification time preserved (cp -p, rsync -t, tar); compare(a, b) again."""
    from vc2_conformance.scripts.vc2_picture_compare import compare_pictures

    geom = GEOMETRIES[case["geom"]]
    pcm = geom[3]
    plain = plain_vp(geom, case["exc"], case["exc"])
    dims = ref_dims(plain, pcm)
    pic = make_picture("index", dims, 3)
    other = {c: [list(r) for r in pic[c]] for c in COMPONENTS}
    other["pic_num"] = 3
    other[case["comp"]][-1][-1] ^= 1
    a = os.path.join(d, "rw_a.raw")
    b = os.path.join(d, "rw_b.raw")
    seq = [pic, other] if case["order"] == "same-then-different" else [other, pic]
    problems = []
    _write_real(pic, plain, pcm, a)
    _write_real(seq[0], plain, pcm, b)
    st = os.stat(b)
    for step, cur in enumerate(seq):
        if step == 1:
            with open(b, "r+b") as f:  # same path, same size, new contents
                f.write(ref_encode(cur, dims))
            os.utime(b, ns=(st.st_atime_ns, st.st_mtime_ns))
        for args in ((a, b), (b, a)):
            msg, code = compare_pictures(*args)
            want = 0 if cur is pic else 4
            if code != want:
                problems.append("step %d (%s): compare_pictures exit %r, expected %d (%r)" % (step, case["order"], code, want, msg[:80]))
                return problems
    return problems


def rewrite_cases():
    return [{"kind": "rewrite", "geom": g, "exc": e, "comp": c, "order": o} for g in (1, 5, 7) for e in (255, 1023) for c in COMPONENTS for o in ("same-then-different", "different-then-same")]


def history_cases(quick):
    n = len(HISTORY_FORMATS)
    out = []
    for reuse in ("inplace", "metadata"):
        for k in (2, 3):
            for fs in itertools.product(range(n), repeat=k):
                if all(fs[j] != fs[j + 1] for j in range(k - 1)):
                    out.append({"kind": "history", "reuse": reuse, "formats": list(fs)})
    return out + dirmode_cases() + rewrite_cases()


def run_case(case, d, a_cache=None):
    if case["kind"] in ("dirmode", "rewrite"):
        if a_cache is not None:
            a_cache.clear()
        problems = run_dirmode(case, d) if case["kind"] == "dirmode" else run_rewrite(case, d)
        return problems, case["kind"]
    if case["kind"] == "history":
        if a_cache is not None:
            a_cache.clear()
        problems = run_history(case, d)
        return problems, "history-%d" % len(case["formats"])
    if case["kind"] == "roundtrip":
        if a_cache is not None:
            a_cache.clear()  # the round trip overwrites a.raw
        problems, nontrivial = run_roundtrip(case, d)
        return problems, ("roundtrip-nonzero" if nontrivial else "roundtrip-zero")
    return run_compare(case, d, a_cache)


# ----------------------------------------------------------------------------
# The enumerated space
# ----------------------------------------------------------------------------


def meta_edits(plain, pcm):
    """One changed value (two for excursions) for every video parameter."""
    out = []
    for name in FIELD_NAMES:
        v = plain[name]
        if name == "frame_width":
            new = [v + 2]
        elif name == "frame_height":
            new = [v + 4]
        elif name == "color_diff_format_index":
            new = [(v + 1) % 3, (v + 2) % 3]
        elif name == "source_sampling":
            new = [1 - v]
        elif name == "top_field_first":
            new = [not v]
        elif name in ("luma_excursion", "color_diff_excursion"):
            d = ref_depth(v)
            new = []
            if d >= 2:
                alt = v - 1 if v == (1 << d) - 1 else v + 1  # same depth, other excursion
                new.append(alt)
            new.append((1 << (d + 1)) - 1 if d < 64 else (1 << (d - 1)) - 1)  # other depth
        elif name in ("color_primaries_index", "color_matrix_index", "transfer_function_index"):
            new = [v + 1]
        else:
            new = [v + 1]
        for n in new:
            p2 = dict(plain)
            p2[name] = n
            dims2 = ref_dims(p2, pcm)
            if all(dims2[c][0] > 0 and dims2[c][1] > 0 for c in COMPONENTS):
                out.append({"type": "meta", "field": name, "value": n})
    return out


def single_sample_edits(pic, dims):
    out = []
    for c, y, x in positions(dims):
        depth = dims[c][2]
        m = (1 << depth) - 1
        v = pic[c][y][x]
        news = []
        if v + 1 <= m:
            news.append(v + 1)
        if v - 1 >= 0:
            news.append(v - 1)
        news.append(0 if v > m // 2 else m)
        seen = set()
        for n in news:
            if n != v and n not in seen:
                seen.add(n)
                out.append({"type": "samples", "changes": [[c, y, x, n]]})
    return out


def multi_sample_edits(pic, dims, sizes=(2, 3)):
    out = []
    pos = positions(dims)
    for k in sizes:
        for combo in itertools.combinations(pos, k):
            changes = []
            for j, (c, y, x) in enumerate(combo):
                m = (1 << dims[c][2]) - 1
                v = pic[c][y][x]
                n = (v ^ 1) if j % 2 == 0 else (m - v if m - v != v else v ^ 1)
                changes.append([c, y, x, n])
            out.append({"type": "samples", "changes": changes})
    return out


def group_cases(group, quick):
    """All cases of one group = (geometry index, luma depth, chroma depth, form)."""
    gi, ld, cd, form = group
    geom = GEOMETRIES[gi]
    pcm = geom[3]
    le, ce = excursions_for(ld, form), excursions_for(cd, form)
    base = {"geom": list(geom), "luma_exc": le, "chroma_exc": ce}
    plain = plain_vp(geom, le, ce)
    dims = ref_dims(plain, pcm)
    cases = []
    for pattern in PATTERNS:
        # quick: every pattern with picture number 0, every picture number with
        # the "index" pattern; thorough: the full product
        for pn in PIC_NUMS if (pattern == "index" or not quick) else PIC_NUMS[:1]:
            c = dict(base)
            c.update(kind="roundtrip", pattern=pattern, pic_num=pn)
            cases.append(c)
    # compare tool: depth pairs (d, d), (d, 8), (64, d) only, "full" excursions
    # (quick: the mixed pairs only for d in QUICK_MIXED_DEPTHS)
    in_compare = ld == cd or cd == 8 or ld == 64
    if quick and ld != cd and not ((cd == 8 and ld in QUICK_MIXED_DEPTHS) or (ld == 64 and cd in QUICK_MIXED_DEPTHS)):
        in_compare = False
    if quick and gi not in QUICK_COMPARE_GEOMETRIES:
        in_compare = False
    if form == "full" and in_compare:
        base_patterns = ["index", "max"] if quick else ["index", "max", "zero"]
        if 64 in (ld, cd):
            base_patterns.append("high-bit")  # 2^63 next to 2^63-1: beyond int64
        for pattern in base_patterns:
            pic = make_picture(pattern, dims, 7)
            edits = [{"type": "none"}]
            if any(dims[c][2] != 8 * dims[c][3] for c in COMPONENTS):
                edits.append({"type": "padding"})
            edits += single_sample_edits(pic, dims)
            if pattern == "index":
                edits += meta_edits(plain, pcm)
                if all(v[0] > 0 and v[1] > 0 for v in ref_dims(plain, 1 - pcm).values()):
                    edits.append({"type": "pcm"})
                for pn in PIC_NUMS:
                    if pn != 7:
                        edits.append({"type": "pic_num", "value": pn})
                npos = len(positions(dims))
                multi_depths = (1, 8, 10, 64) if quick else (1, 2, 7, 8, 9, 10, 16, 17, 31, 32, 33, 63, 64)
                if ld == cd and ld in multi_depths and npos <= (12 if quick else 16):
                    edits += multi_sample_edits(pic, dims)
            for e in edits:
                c = dict(base)
                c.update(kind="compare", pattern=pattern, pic_num=7, edit=e)
                cases.append(c)
                # the same comparison with a difference mask requested
                if pattern == "index" and (ld, cd) in MASK_DEPTHS and e["type"] in ("none", "samples"):
                    c = dict(c)
                    c["mask"] = True
                    cases.append(c)
    return cases


def all_groups(quick):
    forms = ("full",) if quick else ("full", "min")
    groups = []
    for gi in range(len(GEOMETRIES)):
        for ld, cd in depth_pairs():
            if quick and ld != cd and not (ld in QUICK_MIXED_DEPTHS and cd in (8, 64)) and not (cd in QUICK_MIXED_DEPTHS and ld in (8, 64)):
                continue
            for form in forms:
                if form == "min" and (ld == 1 or cd == 1):
                    continue  # 2^0 = 1 = 2^1-1: same excursion as "full"
                groups.append((gi, ld, cd, form))
    return groups


SAMPLE_CLASSES = ("samples:Y", "samples:Y,C1,C2", "meta:luma_excursion", "identical-padding", "pcm", "pic_num", "roundtrip-nonzero")
_SCRATCH = None
_QUICK = True


def _shard(arg):
    sid, groups = arg
    t = Tally()
    d = os.path.join(_SCRATCH, "s%04d" % sid)
    os.makedirs(d, exist_ok=True)
    a_cache = {}
    for g in groups:
        for case in (history_cases(_QUICK)[g[1] :: g[2]] if g[0] == "history" else group_cases(g, _QUICK)):
            problems, cls = run_case(case, d, a_cache)
            t.count("evaluations")
            t.count("evaluations_" + case["kind"])
            t.outcome("class", cls if not problems else "VIOLATION")
            if problems:
                t.violation(problems[0], case)
            elif cls not in ("identical", "roundtrip-zero"):
                t.distinct("nontrivial", mc.tally.dumps(case))
            if g == (7, 33, 33, "full") and case["pattern"] == "index" and cls in SAMPLE_CLASSES and not t.samples.get(cls):
                t.sample(cls, case)
    return t


def run(ctx):
    global _SCRATCH, _QUICK
    _QUICK = ctx.quick
    groups = all_groups(ctx.quick)
    expected = sum(len(group_cases(g, ctx.quick)) for g in groups) + len(history_cases(ctx.quick))
    nshards = 128
    shards = [(i, groups[i::nshards] + [("history", i, nshards)]) for i in range(nshards)]
    k = ctx.seed % nshards
    shards = shards[k:] + shards[:k]
    _SCRATCH = tempfile.mkdtemp(prefix="verif-c23-", dir="/tmp")
    try:
        total = pool.map_shards(_shard, shards)
    finally:
        shutil.rmtree(_SCRATCH, ignore_errors=True)
    if total.n["evaluations"] != expected and not total.errors:
        total.error("evaluated %d cases, the space has %d" % (total.n["evaluations"], expected))
    classes = set(total.hist["class"]) - {"VIOLATION"}
    if not total.violation_count and len(classes) < 20:
        total.error("vacuous: only %d outcome classes reached" % len(classes))
    cov = {
        "evaluations": total.n["evaluations"],
        "distinct_nontrivial": total.ndistinct("nontrivial"),
        "rule": "distinct cases that are a round trip of a picture with at least one non-zero sample, or a comparison of two pictures that are not byte-identical (samples, metadata or padding bits differ)",
        "exhaustive": total.n["evaluations"] == expected and not total.errors,
        "bounds": {
            "geometries(w,h,color_diff_format,picture_coding_mode)": [list(g) for g in GEOMETRIES],
            "depth_pairs": "luma, chroma in {d, 8, 64} for d = 1..64 (%d pairs)" % len(depth_pairs())
            if not ctx.quick
            else "(d, d) for d = 1..64; (d, 8), (8, d), (d, 64), (64, d) for d in %r" % (QUICK_MIXED_DEPTHS,),
            "excursion_forms": ["2^d-1"] if ctx.quick else ["2^d-1", "2^(d-1)"],
            "patterns": PATTERNS,
            "picture_numbers": PIC_NUMS,
            "roundtrip": "patterns x {0} + {index} x picture_numbers" if ctx.quick else "patterns x picture_numbers",
            "compare": {
                "depth_pairs": "(d,d) for d = 1..64; (d,8) and (64,d) for d in %s" % ("%r" % (QUICK_MIXED_DEPTHS,) if ctx.quick else "1..64"),
                "geometries": [list(GEOMETRIES[i]) for i in (QUICK_COMPARE_GEOMETRIES if ctx.quick else range(len(GEOMETRIES)))],
                "base_patterns": (["index", "max"] if ctx.quick else ["index", "max", "zero"]) + ["high-bit (depth 64 only)"],
                "edits": "every position x {+1, -1, to an extreme}; every video parameter, coding mode, picture number; padding bits only; nothing",
                "multi_sample_edits": "all 2- and 3-subsets of positions for pictures of <= %d samples at depths %s"
                % ((12, "1,8,10,64") if ctx.quick else (16, "1,2,7,8,9,10,16,17,31,32,33,63,64")),
            },
            "difference_mask": "every 'none' and sample edit of the index pattern at depth pairs %r repeated with a difference mask requested (the same report and exit status are required; the mask's contents are not judged)" % (MASK_DEPTHS,),
            "directory_mode": "%d runs of main([dir_a, dir_b]) (both orders): directory names %r, with / without a look-alike sibling directory, identical / one differing picture" % (len(dirmode_cases()), DIR_NAMES),
            "rewrite_histories": "%d histories: compare, replace one file in place (same size, modification time preserved), compare again" % len(rewrite_cases()),
            "shared_video_parameters_histories": "%d histories: 2 and 3 consecutive different formats from %r written / read / compared through ONE VideoParameters object edited in place (or the object returned by read_metadata, edited in place)" % (len(history_cases(ctx.quick)), HISTORY_FORMATS),
            "space_size": expected,
            "groups": len(groups),
        },
    }
    return total, cov


def replay_case(case):
    d = tempfile.mkdtemp(prefix="verif-c23-replay-", dir="/tmp")
    try:
        if "edit" in case:
            case = dict(case)
            e = dict(case["edit"])
            if "changes" in e:
                e["changes"] = [list(c) for c in e["changes"]]
            case["edit"] = e
        problems, _ = run_case(case, d)
        return problems
    finally:
        shutil.rmtree(d, ignore_errors=True)
