"""C18 -- the data-unit pattern matcher implements its regular-expression language.

All pattern ASTs up to a node bound x all symbol sequences of a fixed length,
the real Matcher against Brzozowski derivatives (DESIGN.md section 6, C18).
"""
import itertools

import mc  # noqa
from mc import pool
from mc.tally import Tally
from models import regexref as R

PROPERTY = "C18"
LEVEL = "model_checking"
ASSUMPTIONS = [
    "patterns are rendered fully parenthesised (the documentation leaves operator precedence undefined); '$' only in tail position",
    "alphabet {a, b, c} where c is matched only by the wildcard; sequence length bound 5 (every prefix is observed)",
    "known finding F5 (undirected epsilon edges) is attributed only when a faithful model of the defective automaton predicts every observation of the case",
]

LEAVES = (("sym", "a"), ("sym", "b"), R.ANY)
ALPHA = ("a", "b", "c")
DATA_UNITS = (
    "sequence_header",
    "end_of_sequence",
    "auxiliary_data",
    "padding_data",
    "low_delay_picture",
    "high_quality_picture",
    "low_delay_picture_fragment",
    "high_quality_picture_fragment",
)


def observe_impl(m, alpha):
    """Observable state of a real Matcher: (is_complete, valid_next_symbols)."""
    first = m.valid_next_symbols()
    snapshot = frozenset(first)
    # callers own the returned set (make_matching_sequence edits it in place): do the same,
    # then ask again -- the answer must not depend on what was done to an earlier answer
    try:
        first.clear()
        first.add("verif_garbage_symbol")
    except AttributeError:
        pass  # an immutable result cannot be edited
    comp = bool(m.is_complete())
    second = frozenset(m.valid_next_symbols())
    if second != snapshot:
        return (comp, frozenset(second | {"<differs from the first query: %r>" % (sorted(map(str, snapshot)),)}))
    return (comp, second)


def check_vns_correct(vns, cm, alpha):
    """valid_next_symbols() oracle against the correct model."""
    for x in alpha:
        listed = (x in vns) or (R.WILDCARD in vns)
        if listed != cm.would_accept(x):
            return "valid_next_symbols %r but symbol %r %s keep a match possible" % (sorted(vns), x, "does" if cm.would_accept(x) else "does not")
    for x in vns:
        if x not in (R.WILDCARD, R.END_OF_SEQUENCE) and x not in alpha:
            if not cm.would_accept(x):
                return "valid_next_symbols lists %r which cannot continue a match" % (x,)
    if (R.END_OF_SEQUENCE in vns) != cm.is_complete():
        return "END_OF_SEQUENCE listed=%r but complete=%r" % (R.END_OF_SEQUENCE in vns, cm.is_complete())
    return None


def run_sequence(Matcher, text, ast, seq, alpha, nfa_cache):
    """Feed seq to a fresh real Matcher; compare every observation with the
    correct model and with the defect model.

    Returns (agrees_correct, agrees_defect, first_disagreement_description)."""
    m = Matcher(text)
    cm = R.CorrectMatcher(ast)
    if "nfa" not in nfa_cache:
        nfa_cache["nfa"] = R.DefectNFA(ast)
    dm = R.DefectMatcher(None, nfa_cache["nfa"])
    ok_c, ok_d = True, True
    why = None
    step = 0
    while True:
        comp, vns = observe_impl(m, alpha)
        if ok_c:
            if comp != cm.is_complete():
                ok_c, why = False, "after %r: is_complete()=%r, reference %r" % (seq[:step], comp, cm.is_complete())
            else:
                w = check_vns_correct(vns, cm, alpha)
                if w:
                    ok_c, why = False, "after %r: %s" % (seq[:step], w)
        if ok_d:
            if comp != dm.is_complete() or vns != frozenset(dm.valid_next_symbols()):
                ok_d = False
        if step == len(seq):
            break
        x = seq[step]
        r = bool(m.match_symbol(x))
        if ok_c:
            rc = cm.match_symbol(x)
            if r != rc:
                ok_c, why = False, "after %r: match_symbol(%r)=%r, reference %r" % (seq[:step], x, r, rc)
        if ok_d:
            if r != dm.match_symbol(x):
                ok_d = False
        if not ok_c and not ok_d:
            break
        step += 1
    return ok_c, ok_d, why


def check_pattern(Matcher, ast, seqs, alpha, t, source):
    text = R.render(ast)
    cache = {}
    n_bad = 0
    saw_accept = saw_reject = False
    for seq in seqs:
        ok_c, ok_d, why = run_sequence(Matcher, text, ast, seq, alpha, cache)
        t.count("sequences")
        if ok_c:
            if R.accepts(ast, seq):
                saw_accept = True
            else:
                saw_reject = True
            continue
        n_bad += 1
        case = {"pattern": text, "sequence": list(seq), "alphabet": list(alpha)}
        if ok_d:
            t.known_finding("F5", case)
            t.count("f5_cases")
        else:
            t.violation("%s: pattern %r: %s (matches neither the reference nor the F5 defect model)" % (source, text, why), case)
    if saw_accept and saw_reject:
        t.count("patterns_with_both_outcomes")
    if n_bad:
        t.count("patterns_affected_by_f5_or_violation")
    return n_bad


def all_patterns(max_nodes):
    pats = []
    for n in range(1, max_nodes + 1):
        for p in R.patterns_of_size(n, LEAVES):
            pats.append(p)
    return pats


def _shard(arg):
    from vc2_conformance.symbol_re import Matcher

    max_nodes, seqlen, w, nshards = arg
    t = Tally()
    seqs = list(itertools.product(ALPHA, repeat=seqlen))
    pats = all_patterns(max_nodes)
    for i in range(w, len(pats), nshards):
        for variant in R.with_eos_variants(pats[i]) if R.size(pats[i]) <= max_nodes - 1 else [pats[i]]:
            check_pattern(Matcher, variant, seqs, ALPHA, t, "generated")
            t.count("patterns")
            t.distinct("pattern_texts", R.render(variant))
    return t


def real_patterns():
    from vc2_conformance.level_constraints import LEVEL_SEQUENCE_RESTRICTIONS

    out = []
    for lv, r in sorted(LEVEL_SEQUENCE_RESTRICTIONS.items(), key=lambda kv: int(kv[0])):
        out.append(("level %d" % int(lv), r.sequence_restriction_regex))
    out.append(("generic", "sequence_header .* end_of_sequence"))
    out.append(("testcase:repeated_sequence_headers", "(sequence_header .)+"))
    out.append(("testcase:padding_data", "sequence_header (padding_data .)* padding_data end_of_sequence $"))
    out.append(("doc:padding-between", "(. padding_data)+ end_of_sequence"))
    # de-duplicate by text
    seen = set()
    res = []
    for n, p in out:
        if p not in seen:
            seen.add(p)
            res.append((n, p))
    return res


def _shard_real(arg):
    from vc2_conformance.symbol_re import Matcher

    name, text, seqlen, w, nshards = arg
    t = Tally()
    ast = R.parse(text)
    firsts = list(itertools.product(DATA_UNITS, repeat=2))
    cache = {}
    for i in range(w, len(firsts), nshards):
        for rest in itertools.product(DATA_UNITS, repeat=seqlen - 2):
            seq = firsts[i] + rest
            ok_c, ok_d, why = run_sequence(Matcher, text, ast, seq, DATA_UNITS, cache)
            t.count("real_sequences")
            if ok_c:
                continue
            case = {"pattern": text, "sequence": list(seq), "alphabet": list(DATA_UNITS), "real": name}
            if ok_d:
                t.known_finding("F5", case)
                t.count("f5_cases_real")
            else:
                t.violation("%s: %s (matches neither the reference nor the F5 defect model)" % (name, why), case)
    return t


def run(ctx):
    max_nodes = 5 if ctx.quick else 6
    seqlen = 5
    real_len = 5 if ctx.quick else 6
    nsh = 64
    shards = [(max_nodes, seqlen, w, nsh) for w in range(nsh)]
    total = pool.map_shards(_shard, shards)
    reals = real_patterns()
    rs = []
    for name, text in reals:
        for w in range(16):
            rs.append((name, text, real_len, w, 16))
    total.merge(pool.map_shards(_shard_real, rs))
    # parser cross-check: the independent parser and renderer agree on every generated pattern
    for p in all_patterns(min(max_nodes, 4)):
        if R.parse(R.render(p)) != p:
            total.error("models/regexref parser/renderer disagree on %r" % (p,))
            break
    if total.n["patterns_with_both_outcomes"] < 200 and not total.violation_count:
        total.error("vacuous: only %d patterns with both accepted and rejected sequences" % total.n["patterns_with_both_outcomes"])
    total.sample("generated", {"pattern": "(a)* | (b)*", "sequence": ["a", "b", "c", "a", "a"]})
    total.sample("real", {"pattern": reals[1][1][:120], "sequence": ["sequence_header", "high_quality_picture", "high_quality_picture_fragment", "end_of_sequence", "padding_data"]})
    cov = {
        "states": total.ndistinct("pattern_texts") + len(reals),
        "transitions": (total.n["sequences"]) * seqlen + total.n["real_sequences"] * real_len,
        "traces_validated_against_impl": total.n["sequences"] + total.n["real_sequences"],
        "exhaustive": True,
        "bounds": {
            "pattern_nodes_max": max_nodes,
            "patterns": total.n["patterns"],
            "sequence_length": seqlen,
            "alphabet": list(ALPHA),
            "real_patterns": [n for n, _ in reals],
            "real_sequence_length": real_len,
            "real_alphabet": list(DATA_UNITS),
        },
        "rule": "states = distinct pattern texts (each a fresh real Matcher per sequence); transitions = match_symbol calls observed (each followed by is_complete and valid_next_symbols); every observation compared with the derivative model",
        "patterns_with_both_outcomes": total.n["patterns_with_both_outcomes"],
    }
    return total, cov


def replay_case(case):
    from vc2_conformance.symbol_re import Matcher

    text = case["pattern"]
    ast = R.parse(text)
    ok_c, ok_d, why = run_sequence(Matcher, text, ast, tuple(case["sequence"]), tuple(case["alphabet"]), {})
    if ok_c:
        return []
    return [("F5-like: " if ok_d else "") + str(why)]
