"""C12 -- quantisation reconstructs within one step and distinguishes indices.

Exhaustive enumeration of the decisive window of coefficients for every index up
to a bound (see the periodicity argument in models/quantref.py), boundary
neighbourhoods for the remaining expressible indices, and the monotonicity
claims up to index 1023.  Oracle: the closed forms of the standard written
independently in models/quantref.py plus the property's own clauses (sign kept or
zero, error strictly below factor/4, index 0 lossless).
"""
import importlib

import mc  # noqa: F401  (sets sys.path for VERIF_REPO)
from mc import pool
from mc.tally import Tally
from models import quantref as Q

PROPERTY = "C12"
LEVEL = "exploration"
ASSUMPTIONS = [
    "models/quantref.py transcribes the quantisation factor table of SMPTE ST 2042-1 13.3.2 correctly (cross-checked table-free: factor**4 ~ 2**(8+index))",
    "the reconstruction bound is decided for ALL integers only for indices up to bounds.window_q_max, by the periodicity argument in models/quantref.py (a theorem about the closed form; the implementation is compared with the closed form on the whole window, both signs)",
    "outside the window the implementation is assumed to be uniform integer arithmetic in the coefficient (no magnitude-dependent branch); guarded by far-away windows and power-of-two neighbourhoods, not decided",
    "indices above window_q_max up to 255: only boundary neighbourhoods are enumerated (exhaustive within that stated set only)",
    "Python integers: no fixed-width overflow is modelled",
]

CHUNK = 1 << 17
MONO_MAX = 1023
FAR_N = 10 ** 9 + 7  # far-away period used by the uniformity guard
DISTINCT_FROM_PROPERTY = 7


def impl():
    m = importlib.import_module("vc2_conformance.pseudocode.quantization")
    return m.forward_quant, m.inverse_quant, m.quant_factor, m.quant_offset


def min_distinct_constant():
    m = importlib.import_module("vc2_conformance.test_cases.decoder.lossless_quantization")
    return m.MINIMUM_DISTINCT_QINDEX, m.compute_qindex_with_distinct_quant_factors


# ---------------------------------------------------------------------------
# single-case evaluation (used by replay and by the slow paths)
# ---------------------------------------------------------------------------


def check_value(q, x):
    """All clauses for one (index, coefficient).  Returns (problems, class)."""
    fq, iq, qf, qo = impl()
    f = Q.factor(q)
    problems = []
    xq = fq(x, q)
    xr = iq(xq, q)
    if xq != Q.forward(x, q):
        problems.append("forward_quant(%d, %d) = %r, closed form gives %d" % (x, q, xq, Q.forward(x, q)))
    if xr != Q.inverse(xq, q):
        problems.append("inverse_quant(%r, %d) = %r, closed form gives %d" % (xq, q, xr, Q.inverse(xq, q)))
    problems += Q.reconstruction_problems(x, q, xq, xr, f)
    cls = "zeroed" if xq == 0 else ("exact" if xr == x else "lossy")
    return problems, cls


def boundary_values(q, window_top=None):
    """Boundary neighbourhoods (magnitudes), sorted; see DESIGN C12."""
    f = Q.factor(q)
    mags = set()
    for j in range(0, 9):
        for base in ((j * f) // 4, -((-j * f) // 4)):
            for d in range(-4, 5):
                mags.add(base + d)
    for k in range(0, q // 4 + 12):
        for d in range(-4, 5):
            mags.add((1 << k) + d)
    # multiples of the factor itself far away (k = 4m + j for a large m)
    for j in range(0, 5):
        for d in range(-2, 3):
            mags.add((FAR_N * 4 + j) * f // 4 + d)
    return sorted(m for m in mags if m >= 0)


# ---------------------------------------------------------------------------
# shards
# ---------------------------------------------------------------------------


def _window_chunk(t, q, lo, hi):
    """Magnitudes lo..hi-1 (both signs) at index q, implementation vs closed form."""
    fq, iq, qf, qo = impl()
    f = Q.factor(q)
    o = Q.offset(q)
    n_zeroed = n_exact = n_lossy = n_eval = 0
    for a in range(lo, hi):
        k = (4 * a) // f
        e_inv = ((k * f + o + 2) // 4) if k else 0
        for x, ek, er in ((a, k, e_inv), (-a, -k, -e_inv)) if a else ((0, 0, 0),):
            xq = fq(x, q)
            xr = iq(xq, q)
            n_eval += 1
            if xq != ek or xr != er or not (4 * abs(x - xr) < f) or (q == 0 and xr != x) or (xr != 0 and (xr > 0) != (x > 0)):
                problems, _ = check_value(q, x)
                t.violation(problems[0] if problems else "fast/slow path disagree", {"kind": "value", "q": q, "x": x})
            if xq == 0:
                n_zeroed += 1
            elif xr == x:
                n_exact += 1
            else:
                n_lossy += 1
    t.count("window_evaluations", n_eval)
    t.outcome("window_class", "zeroed", n_zeroed)
    t.outcome("window_class", "exact", n_exact)
    t.outcome("window_class", "lossy", n_lossy)
    t.count("nontrivial", n_lossy)


def check_period(q, a):
    """error(a + f) == error(a) on the implementation, both signs (needs 4a >= f)."""
    fq, iq, qf, qo = impl()
    f = Q.factor(q)
    out = []
    for s in (1, -1):
        x0, x1 = s * a, s * (a + f)
        e0 = iq(fq(x0, q), q) - x0
        e1 = iq(fq(x1, q), q) - x1
        if e0 != e1:
            out.append("error not periodic at index %d: x=%d err %d, x=%d err %d" % (q, x0, e0, x1, e1))
    return out


def _shard(shard):
    t = Tally()
    for item in shard:
        kind = item[0]
        if kind == "window":
            _window_chunk(t, item[1], item[2], item[3])
        elif kind == "period":
            q = item[1]
            f = Q.factor(q)
            lo = -((-f) // 4)
            for a in range(lo, Q.window_top(q) + 1):
                p = check_period(q, a)
                t.count("period_evaluations", 2)
                if p:
                    t.violation(p[0], {"kind": "period", "q": q, "a": a})
            # one far-away period, compared with the closed form and the clauses
            for a in range(FAR_N * f, FAR_N * f + Q.window_top(q) + 1):
                for x in (a, -a):
                    problems, cls = check_value(q, x)
                    t.count("far_evaluations")
                    if problems:
                        t.violation(problems[0], {"kind": "value", "q": q, "x": x})
        elif kind == "boundary":
            q = item[1]
            for a in boundary_values(q):
                for x in ((a, -a) if a else (0,)):
                    problems, cls = check_value(q, x)
                    t.count("boundary_evaluations")
                    t.outcome("boundary_class", cls)
                    if cls == "lossy":
                        t.count("nontrivial_boundary")
                    if problems:
                        t.violation(problems[0], {"kind": "value", "q": q, "x": x})
        else:
            raise ValueError(item)
    return t


# ---------------------------------------------------------------------------
# monotonicity / table / constant
# ---------------------------------------------------------------------------


def check_index(i):
    """Factor/offset table entry i against the closed form and the order claims."""
    fq, iq, qf, qo = impl()
    out = []
    f, f1 = qf(i), qf(i + 1)
    if f != Q.factor(i):
        out.append("quant_factor(%d) = %r, standard gives %d" % (i, f, Q.factor(i)))
    if not Q.factor_is_plausible(i, f):
        out.append("quant_factor(%d) = %r is not 4*2**(%d/4) to the expected accuracy" % (i, f, i))
    if qo(i) != Q.offset(i):
        out.append("quant_offset(%d) = %r, standard gives %d" % (i, qo(i), Q.offset(i)))
    if not (f < f1):
        out.append("quant_factor not strictly increasing: qf(%d)=%r, qf(%d)=%r" % (i, f, i + 1, f1))
    return out


def check_distinct(i):
    """inverse_quant(1, i) < inverse_quant(1, i+1); in scope only from the tree's
    MINIMUM_DISTINCT_QINDEX (or 7, the property's figure, if that is smaller)."""
    fq, iq, qf, qo = impl()
    out = []
    if i < min(min_distinct_constant()[0], DISTINCT_FROM_PROPERTY):
        return out
    a, b = iq(1, i), iq(1, i + 1)
    if a != Q.inverse(1, i):
        out.append("inverse_quant(1, %d) = %r, closed form gives %d" % (i, a, Q.inverse(1, i)))
    if not (a < b):
        out.append("inverse_quant(1, i) not strictly increasing: i=%d -> %r, i=%d -> %r" % (i, a, i + 1, b))
    return out


def check_matrix(vals):
    """The test case's qindex choice for quantisation matrix entries `vals`."""
    const, compute = min_distinct_constant()
    fq, iq, qf, qo = impl()
    matrix = {0: {"LL": vals[0]}, 1: {"HL": vals[1], "LH": vals[2], "HH": vals[3]}}
    qi = compute(matrix)
    out = []
    idx = sorted(set(qi - v for v in vals))
    if min(idx) < 0:
        out.append("qindex %r for matrix %r is below a matrix entry" % (qi, list(vals)))
    deq = [iq(1, max(i, 0)) for i in idx]
    if len(set(deq)) != len(idx):
        out.append("qindex %r for matrix %r: indices %r dequantise 1 to %r (not distinct)" % (qi, list(vals), idx, deq))
    return out


def serial_checks(t):
    const, _ = min_distinct_constant()
    t.sample("constant", {"MINIMUM_DISTINCT_QINDEX": const})
    for i in range(0, MONO_MAX + 1):
        p = check_index(i)
        t.count("index_evaluations")
        if p:
            t.violation(p[0], {"kind": "index", "i": i})
    start = min(const, DISTINCT_FROM_PROPERTY)
    for i in range(start, MONO_MAX):
        p = check_distinct(i)
        t.count("distinct_evaluations")
        if p:
            t.violation(p[0], {"kind": "distinct", "i": i})
    # the smallest indices are NOT distinct (that is why the constant exists);
    # measured, so that the clause above is known to be non-vacuous
    fq, iq, qf, qo = impl()
    collisions = [i for i in range(0, DISTINCT_FROM_PROPERTY) if iq(1, i) == iq(1, i + 1)]
    t.count("collisions_below_constant", len(collisions))
    rng = range(0, 6)
    for a in rng:
        for b in rng:
            for c in rng:
                for d in rng:
                    p = check_matrix((a, b, c, d))
                    t.count("matrix_evaluations")
                    if p:
                        t.violation(p[0], {"kind": "matrix", "vals": [a, b, c, d]})
    return const


def make_shards(qmax, period_qmax):
    items = []
    expected = 0
    for q in range(0, qmax + 1):
        top = Q.window_top(q)
        expected += 2 * top + 1
        lo = 0
        while lo <= top:
            hi = min(top + 1, lo + CHUNK)
            items.append(("window", q, lo, hi, hi - lo))
            lo = hi
    for q in range(0, period_qmax + 1):
        items.append(("period", q, 0, 0, 4 * Q.window_top(q)))
    for q in range(0, 256):
        items.append(("boundary", q, 0, 0, 2000))
    # pack into shards of roughly CHUNK cost, deterministic
    shards, cur, cost = [], [], 0
    for it in items:
        cur.append(it[:4])
        cost += it[4]
        if cost >= CHUNK:
            shards.append(cur)
            cur, cost = [], 0
    if cur:
        shards.append(cur)
    return shards, expected


def run(ctx):
    qmax = 84 if ctx.quick else 100
    period_qmax = 56 if ctx.quick else 64
    total = Tally()
    const = serial_checks(total)
    shards, expected_window = make_shards(qmax, period_qmax)
    # rebalance: make sure there are >= 32 shards
    if len(shards) < 32:
        total.error("only %d shards" % len(shards))
    rot = ctx.seed % len(shards)
    shards = shards[rot:] + shards[:rot]
    total.merge(pool.map_shards(_shard, shards))

    expected_boundary = sum(2 * len(boundary_values(q)) - (1 if 0 in boundary_values(q) else 0) for q in range(256))
    expected_period = sum(2 * (Q.window_top(q) + 1 - (-((-Q.factor(q)) // 4))) for q in range(period_qmax + 1))
    expected_far = sum(2 * (Q.window_top(q) + 1) for q in range(period_qmax + 1))
    sizes = {
        "window": (total.n["window_evaluations"], expected_window),
        "boundary": (total.n["boundary_evaluations"], expected_boundary),
        "period": (total.n["period_evaluations"], expected_period),
        "far_window": (total.n["far_evaluations"], expected_far),
        "index_table": (total.n["index_evaluations"], MONO_MAX + 1),
        "distinct": (total.n["distinct_evaluations"], MONO_MAX - min(const, DISTINCT_FROM_PROPERTY)),
        "matrices": (total.n["matrix_evaluations"], 6 ** 4),
    }
    exhaustive = True
    for name, (got, want) in sorted(sizes.items()):
        if got != want:
            exhaustive = False
            total.error("sub-space %s: evaluated %d, computed size %d" % (name, got, want))
    wc = total.hist["window_class"]
    if not (wc["zeroed"] and wc["exact"] and wc["lossy"]):
        total.error("vacuous: window outcome classes %r" % dict(wc))
    if total.n["collisions_below_constant"] < 1:
        total.error("vacuous: no repeated inverse_quant(1, i) below index %d" % DISTINCT_FROM_PROPERTY)

    total.sample("value", {"kind": "value", "q": 0, "x": -5})
    total.sample("value", {"kind": "value", "q": 1, "x": 3})
    total.sample("value", {"kind": "value", "q": 37, "x": -Q.window_top(37)})
    total.sample("value", {"kind": "value", "q": 255, "x": 5 * Q.factor(255) // 4 + 1})
    total.sample("index", {"kind": "index", "i": 1023})
    total.sample("distinct", {"kind": "distinct", "i": 7})

    cov = {
        "evaluations": sum(got for got, _ in sizes.values()),
        "distinct_nontrivial": total.n["nontrivial"] + total.n["nontrivial_boundary"],
        "rule": "a case (index, coefficient) is non-trivial when the quantised value is non-zero and the reconstruction differs from the coefficient (lossy, non-zeroed); every (index, coefficient) pair is enumerated exactly once per sub-space, so the count is a count of distinct cases",
        "exhaustive": exhaustive,
        "bounds": {
            "window_q_max": qmax,
            "window": "every |x| in [0, ceil(5*factor/4)], both signs, every index 0..%d; decides all integers for the closed form (periodicity argument, models/quantref.py)" % qmax,
            "window_largest_magnitude": Q.window_top(qmax),
            "q_%d_255" % (qmax + 1): {"coverage": "boundary neighbourhoods {j*factor/4 + d: j 0..8, |d|<=4} u {2**k + d} u far multiples, both signs", "exhaustive_over_integers": False},
            "boundary_indices": "0..255",
            "periodicity_on_implementation_q_max": period_qmax,
            "far_window_offset_in_factors": FAR_N,
            "factor_monotonic_and_table": "0..%d" % MONO_MAX,
            "dequantised_one_strictly_increasing": "%d..%d" % (min(const, DISTINCT_FROM_PROPERTY), MONO_MAX),
            "MINIMUM_DISTINCT_QINDEX_in_tree": const,
            "quant_matrices": "4 entries each 0..5",
        },
        "subspace_sizes": {k: v[0] for k, v in sizes.items()},
    }
    return total, cov


def replay_case(case):
    kind = case["kind"]
    if kind == "value":
        return check_value(int(case["q"]), int(case["x"]))[0]
    if kind == "period":
        return check_period(int(case["q"]), int(case["a"]))
    if kind == "index":
        return check_index(int(case["i"]))
    if kind == "distinct":
        return check_distinct(int(case["i"]))
    if kind == "matrix":
        return check_matrix(tuple(int(v) for v in case["vals"]))
    raise ValueError(kind)
