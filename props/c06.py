"""C06 -- deserialise then serialise reproduces the bytes of any parseable stream.

Same deviation corpus as C02, driven through the real Deserialiser and
Serialiser (DESIGN.md section 6, C06).
"""
import io

import mc  # noqa
from mc import pool, vc2run
from mc.tally import Tally
from props import corpus
from build import vc2build as B

PROPERTY = "C06"
LEVEL = "fault_enumeration"
ASSUMPTIONS = [
    "in scope = inputs the Deserialiser parses to completion with no exception (incl. verify_complete) and that end exactly at end of file",
    "resource bound as C02 (declared picture/transform sizes) enforced by a monitor on the deserialiser's State",
    "deviation bound: 0, 1 and (header region) 2 deviations from 16 builder seeds + encoder seeds + extra builder streams with dangling bits / odd offsets",
]
HORIZON = 30.0

_monitor_installed = False


def install_bitstream_limits():
    """Bound declared sizes in the bitstream (serdes) parser: wrap its
    slice_parameters / set_coding_parameters lookups the same way as the decoder's."""
    global _monitor_installed
    if _monitor_installed:
        return
    _monitor_installed = True
    import sys

    vc2 = sys.modules["vc2_conformance.bitstream.vc2"]
    L = vc2run.LIMITS
    real_sp = vc2.slice_parameters

    def slice_parameters(serdes, state):
        lw, lh = state["luma_width"], state["luma_height"]
        if lw * lh > L["max_luma_area"] or lw > L["max_dim"] or lh > L["max_dim"]:
            raise vc2run.OutOfScope("picture")
        if state["dwt_depth"] + state["dwt_depth_ho"] > L["max_dwt_total"]:
            raise vc2run.OutOfScope("dwt")
        r = real_sp(serdes, state)
        if state["slices_x"] * state["slices_y"] > L["max_slices"]:
            raise vc2run.OutOfScope("slices")
        return r

    # keep decorations (context_type) of the original by copying attributes
    for a in ("context_type",):
        if hasattr(real_sp, a):
            setattr(slice_parameters, a, getattr(real_sp, a))
    vc2.slice_parameters = slice_parameters


def extra_streams():
    """Builder streams aimed at the deserialiser's robustness substitutions."""
    T = B.tiny_format
    hq = T()
    ld = T(profile=B.PROFILE_LD, major_version=1, slice_bytes_numerator=5, slice_bytes_denominator=1)
    out = []
    # dangling bounded-block bits: payloads ending inside an exp-Golomb code
    for bits in ("0", "00", "01", "0000000", "00000001", "0101010", "00100001", "11111110"):
        pl = (bits + "0" * 8)[:8]
        out.append(("hq-dangling-" + bits, B.simple_stream(hq, 1, slice_kw=lambda sx, sy, pl=pl: {"payloads": (pl, pl, "")})))
    # non-zero byte-align padding: sequence header final padding bits set / picture header align
    u = B.seq_header(hq)
    u.tokens.append(("bits", "1", "x-pad-bit"))
    out.append(("sh-nonzero-pad", [u, B.end_of_sequence()]))
    # LD slice_y_length larger than the slice
    for syl in (0, 1, 5, 25, 26, 27, 31):
        out.append(("ld-syl-%d" % syl, B.simple_stream(ld, 1, slice_kw=lambda sx, sy, syl=syl: {"slice_y_length": syl, "y_bits": "0011", "c_bits": "0101", "fill": "0"})))
    # unknown preset indices
    for kw in (
        dict(base_video_format=99),
        dict(frame_rate=("preset", 40)),
        dict(pixel_aspect_ratio=("preset", 9)),
        dict(signal_range=("preset", 9)),
        dict(color_spec=("preset", 9)),
        dict(color_spec=("custom", 9, 9, 9)),
        dict(color_diff_format_index=7),
        dict(picture_coding_mode=5),
        dict(profile=9),
        dict(wavelet_index=9),
    ):
        out.append(("odd-" + "-".join("%s" % k for k in kw), B.simple_stream(hq.but(**kw), 1)))
    # concatenated sequences whose pictures differ only in colour-difference sampling (same luma
    # size, depths, slice counts): anything remembered about one picture's geometry must not
    # be applied to another's, neither while reading nor while writing back
    import itertools as _it

    fmts = {c: hq.but(color_diff_format_index=c, frame_width=4, frame_height=4, clean_area="frame") for c in (0, 1, 2)}
    for perm in _it.permutations((0, 1, 2)):
        units = []
        for c in perm:
            units += B.simple_stream(fmts[c], 1, slice_kw=lambda sx, sy: {"qindex": 0, "coeffs": ([1, -1, 2, 0, 1, 1, 0, 1], [1, 1, 0, 1], [0, -1, 1, 1])})
        out.append(("formats-%d%d%d" % perm, units))
    for npo in (0, 1, 12, 13, 14):
        out.append(("pad-npo-%d" % npo, [B.seq_header(hq), B.padding(b"", npo=npo), B.auxiliary(b"", npo=npo), B.end_of_sequence()]))
        out.append(("pad1-npo-%d" % npo, [B.seq_header(hq), B.padding(b"z", npo=npo), B.end_of_sequence()]))
    return out


_EXTRA = None


def extra():
    global _EXTRA
    if _EXTRA is None:
        _EXTRA = [(n, B.assemble(u)) for n, u in extra_streams()]
    return _EXTRA


def roundtrip(data, prefilled=False):
    """Returns (kind, problems).  prefilled: serialise into a file object that already holds
    (longer) old contents, written over in place from offset 0."""
    from vc2_conformance import bitstream as bs
    from vc2_conformance.pseudocode.state import State

    install_bitstream_limits()
    f = io.BytesIO(bytes(data))
    r = bs.BitstreamReader(f)
    try:
        with bs.Deserialiser(r) as des:
            bs.parse_stream(des, State())
        ctx = des.context
    except vc2run.OutOfScope:
        return "oos", []
    except Exception as e:  # noqa
        return "unparseable:" + type(e).__name__, []
    # Parsed to completion.  The deserialiser stops at end of stream only
    # (parse_stream loops until EOF), so all bytes were consumed.
    old = b"\xaa" * (len(data) + 40) if prefilled else b""
    out = io.BytesIO(old)
    out.seek(0)
    w = bs.BitstreamWriter(out)
    try:
        with bs.Serialiser(w, ctx, bs.vc2_default_values) as ser:
            bs.parse_stream(ser, State())
        w.flush()
    except Exception as e:  # noqa
        return "parsed", ["re-serialising the deserialised description%s raised %s: %s" % (" over old file contents" if prefilled else "", type(e).__name__, e)]
    got = out.getvalue()
    problems = []
    if prefilled:
        if got[len(data) :] != old[len(data) :] or w.tell() != (len(data), 7):
            return "parsed", ["serialising over old file contents wrote beyond the stream: writer at %r after a %d-byte stream, %d bytes of the old contents changed" % (w.tell(), len(data), sum(1 for a, b in zip(got[len(data) :], old[len(data) :]) if a != b))]
        got = got[: len(data)]
    if got != bytes(data):
        n = min(len(got), len(data))
        i = next((k for k in range(n) if got[k] != data[k]), n)
        problems.append("serialised bytes differ from input at byte %d (lengths %d vs %d): got %s want %s" % (i, len(got), len(data), got[i : i + 6].hex(), bytes(data)[i : i + 6].hex()))
        return "parsed", problems
    try:
        with bs.Deserialiser(bs.BitstreamReader(io.BytesIO(got))) as des2:
            bs.parse_stream(des2, State())
        if not (des2.context == ctx):
            problems.append("re-deserialised description differs")
    except Exception as e:  # noqa
        problems.append("re-deserialising raised %s: %s" % (type(e).__name__, e))
    return "parsed", problems


def case_bytes(case):
    if case[1] == "extra":
        return extra()[case[2]][1]
    if case[1] == "extra-sub":
        d = extra()[case[2]][1]
        return d[: case[3]] + bytes([case[4]]) + d[case[3] + 1 :]
    return corpus.materialise(case)


def all_cases(tier):
    cases = corpus.enumerate_cases(tier)
    for i, (n, d) in enumerate(extra()):
        cases.append((-3, "extra", i))
        for pos in range(len(d)):
            for v in corpus.byte_values(d[pos], "quick"):
                cases.append((-3, "extra-sub", i, pos, v))
    return cases


def run_case(case):
    data = case_bytes(case)
    try:
        kind, problems = pool.with_watchdog(HORIZON, roundtrip, data)
        if kind == "parsed" and not problems and case[1] in ("id", "extra"):
            kind, problems = pool.with_watchdog(HORIZON, roundtrip, data, True)
        return kind, problems
    except pool.Watchdog:
        return "timeout", []


def _shard(arg):
    tier, w, n = arg
    t = Tally()
    for case in all_cases(tier)[w::n]:
        kind, problems = run_case(case)
        t.count("executions")
        t.outcome("kind", kind)
        if kind == "parsed":
            t.count("in_scope")
            if case[1] not in ("id", "extra", "enc-id"):
                t.distinct("parsed_mutants", case)
            t.sample("parsed:" + case[1], {"case": case})
        if problems:
            t.violation(problems[0], {"case": case})
    return t


def run(ctx):
    n = 64
    order = list(range(n))
    r = ctx.seed % n
    order = order[r:] + order[:r]
    total = pool.map_shards(_shard, [(ctx.tier, w, n) for w in order])
    ncases = len(all_cases(ctx.tier))
    if total.n["executions"] != ncases:
        total.error("evaluated %d of %d" % (total.n["executions"], ncases))
    if total.n["in_scope"] * 100 < 20 * ncases and not total.violation_count:
        total.error("vacuous: only %d of %d inputs in scope" % (total.n["in_scope"], ncases))
    cov = {
        "evaluations": total.n["executions"],
        "distinct_nontrivial": total.ndistinct("parsed_mutants"),
        "in_scope": total.n["in_scope"],
        "rule": "C02's deviation corpus plus builder streams with dangling bounded-block bits, non-zero padding, clamped LD lengths, unknown indices and odd padding offsets (and their 1-byte substitutions); non-trivial = distinct mutated inputs that deserialise to completion (in scope) and were round-tripped",
        "exhaustive": total.n["executions"] == ncases,
        "bounds": {"seeds": corpus.n_seeds(), "extra_streams": len(extra()), "tier_sets": "see C02 bounds"},
    }
    return total, cov


def replay_case(case):
    c = tuple(tuple(x) if isinstance(x, list) else x for x in case["case"])
    return run_case(c)[1]
