"""C26 -- the bitstream viewer never reports an internal error.

The real vc2-bitstream-viewer main() in-process over the deviation corpus
(DESIGN.md section 6, C26).
"""
import contextlib
import io
import os
import shutil
import tempfile

import mc  # noqa
from mc import pool, vc2run
from mc.tally import Tally
from props import corpus, c06

PROPERTY = "C26"
LEVEL = "fault_enumeration"
ASSUMPTIONS = [
    "main() is run in-process with output captured; the deserialiser's declared sizes are bounded by the same resource monitor as C06 (inputs above it are set aside)",
    "default display options for every input; each other option set on a fixed subset (every 40th case)",
    "allowed statuses: 0 (ok), 2 (bad parse_info prefix), 3 (end of file), 4 (parse failure); 255 or any escaping exception is a violation; per-execution horizon 30 s",
]
HORIZON = 30.0
ALLOWED = (0, 2, 3, 4)
OPTION_SETS = (
    (),
    ("-i",),
    ("-p",),
    ("--hide", "slice"),
    ("--from-offset", "100", "--to-offset", "400"),
    ("-v",),
    ("--show", "parse_info", "-b", "3"),
    ("--offset", "200", "-C", "2"),
)


def run_viewer(data, workdir, options=()):
    from vc2_conformance.scripts import vc2_bitstream_viewer as cli

    c06.install_bitstream_limits()
    path = os.path.join(workdir, "in.vc2")
    with open(path, "wb") as f:
        f.write(data)
    out, err = io.StringIO(), io.StringIO()
    try:
        with contextlib.redirect_stdout(out), contextlib.redirect_stderr(err):
            with vc2run.fresh_process_int_limit():
                rc = pool.with_watchdog(HORIZON, cli.main, [path, "-q"] + list(options))
    except vc2run.OutOfScope:
        return "oos", ""
    except pool.Watchdog:
        return "timeout", ""
    except SystemExit as e:
        return "exit:%r" % (e.code,), err.getvalue()[-300:]
    except Exception as e:  # noqa
        return "exception:%s: %s" % (type(e).__name__, e), ""
    return rc, err.getvalue()[-300:]


def cases(tier):
    if tier == "thorough":
        return corpus.enumerate_cases("quick")
    kinds = {"id", "trunc", "sub", "del", "ins", "pi", "tok", "pi13", "enc", "code"}
    cs = corpus.enumerate_cases("quick", kinds)
    # parse codes: the 8 defined codes plus a spread of undefined ones, at every parse_info
    keep = {0x00, 0x10, 0x20, 0x30, 0xC8, 0xE8, 0xCC, 0xEC, 0x01, 0x08, 0x7F, 0x80, 0xC9, 0xE0, 0xFF}
    cs = [c for c in cs if c[1] != "code" or c[3] in keep]
    for v in range(256):
        cs.append((-1, "short", 1, v))
    for v in range(0, 65536, 17):
        cs.append((-1, "short", 2, v))
    cs.append((-1, "short", 0, 0))
    return cs


def _shard(arg):
    tier, w, n = arg
    t = Tally()
    workdir = tempfile.mkdtemp(prefix="verif-c26-")
    try:
        cs = cases(tier)
        for idx in range(w, len(cs), n):
            case = cs[idx]
            data = corpus.materialise(case)
            optsets = [()] + ([OPTION_SETS[1 + (idx // 40) % (len(OPTION_SETS) - 1)]] if idx % 40 == 0 else [])
            for opts in optsets:
                rc, msg = run_viewer(data, workdir, opts)
                t.count("runs")
                t.outcome("status", str(rc) if isinstance(rc, int) else str(rc).split(":")[0])
                if rc == "oos":
                    continue
                if rc not in ALLOWED:
                    t.violation("case %r options %r: viewer status %r %s" % (case, opts, rc, msg[-200:]), {"case": case, "options": list(opts)})
                else:
                    t.distinct("ok", (case, opts, rc))
                    t.sample("status%s" % rc, {"case": case, "options": list(opts)})
    finally:
        shutil.rmtree(workdir, ignore_errors=True)
    return t


def run(ctx):
    n = 64
    total = pool.map_shards(_shard, [(ctx.tier, w, n) for w in range(n)])
    st = total.hist["status"]
    if len([k for k in st if k in ("0", "2", "3", "4")]) < 3 and not total.violation_count:
        total.error("vacuous: statuses %r" % dict(st))
    cov = {
        "evaluations": total.n["runs"],
        "distinct_nontrivial": total.ndistinct("ok"),
        "rule": "every case of the deviation sets (see bounds) is written to a file and displayed by the real viewer's main() with default options (and, for every 40th case, one other option set); non-trivial = distinct (input, options, status) triples with an allowed status",
        "exhaustive": True,
        "bounds": {"cases": len(cases(ctx.tier)), "kinds": "quick: id/trunc/sub/del/ins/pi/tok/pi13/enc + 15 parse codes per parse_info + all 1-byte and every 17th 2-byte string; thorough: the whole C02 quick corpus", "option_sets": [list(o) for o in OPTION_SETS]},
    }
    return total, cov


def replay_case(case):
    workdir = tempfile.mkdtemp(prefix="verif-c26-")
    try:
        c = tuple(tuple(x) if isinstance(x, list) else x for x in case["case"])
        rc, msg = run_viewer(corpus.materialise(c), workdir, tuple(case.get("options", ())))
        return [] if rc in ALLOWED or rc == "oos" else ["viewer status %r %s" % (rc, msg)]
    finally:
        shutil.rmtree(workdir, ignore_errors=True)
