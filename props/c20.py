"""C20 -- bit-level readers and writers agree on every primitive.

Three parts (DESIGN.md section 6, C20), all exhaustive within the recorded bounds:

A  readers: every byte string obtained from every bit string up to a bound (0- and
   1-padded) x read program x start bit x bounded-block length; three-way agreement of
   bitstream.io.BitstreamReader, the validator's decoder.io functions on a State and the
   list-of-bits model in models/bits.py: values, tell() after every primitive, EOF.
B  writer: value ranges x start bit x bounded-block length against the model: bytes
   written, tell, bits_remaining, exp-Golomb lengths, OutOfRangeError with nothing written,
   1 bits past the end of a block accepted / 0 bits rejected, read-back by both readers.
C  explicit-state search over operation histories of the writer, the reader and the
   decoder.io State against the model; dedup key = the implementation's own state; plus a
   non-deduplicated enumeration to a smaller depth and a dedup-soundness cross-check.
"""
import io
import itertools
import sys

import mc
from mc import pool
from mc import space
from mc.tally import Tally

from models import bits as MB
from models.bits import (
    BitReaderModel,
    BitWriterModel,
    ModelBlockOverflow,
    ModelEOF,
    ModelOutOfRange,
    ModelUsageError,
)

PROPERTY = "C20"
LEVEL = "model_checking"
ASSUMPTIONS = [
    "bit strings bounded (see bounds); files are the 0- and 1-padded byte strings of every bit string up to the bound",
    "decoder.io takes part only where it has a function for the primitive: outside blocks bit/bool/nbits/uint_lit/uint/sint/byte_align, inside blocks bit/bool/uint/sint and lengths >= 0 (bits_left is never negative in decoder/*.py)",
    "block accounting after an end-of-file raised inside a bounded block, and the writer's state after a rejected 0 bit, are not defined by the property: such histories are terminal",
    "writer seek semantics follow the class documentation: the byte the writer is positioned in is rewritten (unwritten bits 0) once the position is not at its first bit",
    "io.BytesIO stands for the file object",
    "try_read_bitarray (error-message helper) and bitstream recording are out of scope",
]

# ---------------------------------------------------------------------------
# implementation access
# ---------------------------------------------------------------------------

_IMPL = None


class _Impl(object):
    pass


def impl():
    global _IMPL
    if _IMPL is None:
        I = _Impl()
        from bitarray import bitarray
        from vc2_conformance.bitstream.io import BitstreamReader, BitstreamWriter
        from vc2_conformance.bitstream import exp_golomb
        from vc2_conformance.bitstream.exceptions import OutOfRangeError
        import vc2_conformance.decoder  # noqa
        from vc2_conformance.decoder.exceptions import UnexpectedEndOfStream
        from vc2_conformance.pseudocode.state import State

        I.bitarray = bitarray
        I.Reader = BitstreamReader
        I.Writer = BitstreamWriter
        I.eg = sys.modules["vc2_conformance.bitstream.exp_golomb"]
        I.OutOfRangeError = OutOfRangeError
        I.dio = sys.modules["vc2_conformance.decoder.io"]
        I.UEOS = UnexpectedEndOfStream
        I.State = State
        _IMPL = I
    return _IMPL


def B(v):
    """Tag booleans so that True never compares equal to 1."""
    return ("B", bool(v))


# ---------------------------------------------------------------------------
# read primitives on the three readers.  prim = tuple: ("bit",) ("bool",) ("nbits",k)
# ("uint_lit",n) ("bits",k) ("bytes",n) ("uint",) ("sint",) ("align",)
# ---------------------------------------------------------------------------

def model_read(m, prim):
    k = prim[0]
    if k == "bit":
        return m.read_bit()
    if k == "bool":
        return B(m.read_bool())
    if k == "nbits":
        return m.read_nbits(prim[1])
    if k == "uint":
        return m.read_uint()
    if k == "sint":
        return m.read_sint()
    if k == "uint_lit":
        return m.read_uint_lit(prim[1])
    if k == "bits":
        return m.read_bits(prim[1])
    if k == "bytes":
        return m.read_bytes(prim[1])
    if k == "align":
        return m.byte_align()
    raise ValueError(prim)


def _norm(v):
    if v is True or v is False:
        return B(v)
    if isinstance(v, (int, bytes, tuple)) or v is None:
        return v
    if isinstance(v, bytearray):
        return bytes(v)
    return tuple(v.tolist())  # bitarray


def serdes_read(r, prim):
    """The calls bitstream.serdes.Deserialiser makes for each primitive."""
    k = prim[0]
    if k == "bit":
        return _norm(r.read_bit())
    if k == "bool":
        return B(bool(r.read_bit()))
    if k == "nbits":
        return _norm(r.read_nbits(prim[1]))
    if k == "uint":
        return _norm(r.read_uint())
    if k == "sint":
        return _norm(r.read_sint())
    if k == "uint_lit":
        return _norm(r.read_uint_lit(prim[1]))
    if k == "bits":
        return _norm(r.read_bitarray(prim[1]))
    if k == "bytes":
        return _norm(r.read_bytes(prim[1]))
    if k == "align":
        _, b = r.tell()
        return _norm(r.read_bitarray(0 if b == 7 else b + 1))
    raise ValueError(prim)


DEC_UNBOUNDED = frozenset(["bit", "bool", "nbits", "uint_lit", "uint", "sint", "align"])
DEC_BOUNDED = frozenset(["bit", "bool", "uint", "sint"])


def dec_read(dio, st, prim, bounded):
    k = prim[0]
    if bounded:
        if k == "bit":
            return _norm(dio.read_bitb(st))
        if k == "bool":
            return _norm(dio.read_boolb(st))
        if k == "uint":
            return _norm(dio.read_uintb(st))
        if k == "sint":
            return _norm(dio.read_sintb(st))
        raise ValueError(prim)
    if k == "bit":
        return _norm(dio.read_bit(st))
    if k == "bool":
        return _norm(dio.read_bool(st))
    if k == "nbits":
        return _norm(dio.read_nbits(st, prim[1]))
    if k == "uint_lit":
        return _norm(dio.read_uint_lit(st, prim[1]))
    if k == "uint":
        return _norm(dio.read_uint(st))
    if k == "sint":
        return _norm(dio.read_sint(st))
    if k == "align":
        dio.byte_align(st)
        return None
    raise ValueError(prim)


def dec_supports(program, block):
    if block is None:
        ok = DEC_UNBOUNDED
    elif block < 0:
        return False
    else:
        ok = DEC_BOUNDED
    for p in program:
        if p[0] not in ok:
            return False
    return True


# ---------------------------------------------------------------------------
# Part A: reader programs
# ---------------------------------------------------------------------------

def _programs():
    base = [("bit",), ("bool",), ("nbits", 1), ("nbits", 3), ("nbits", 9), ("uint",), ("sint",),
            ("uint_lit", 1), ("bits", 2), ("bytes", 1), ("align",)]
    singles = [(("bit",),) * n for n in (1, 2, 3, 8, 9, 17)]
    singles += [(("nbits", k),) for k in range(0, 10)]
    singles += [(("bits", k),) for k in (0, 1, 2, 5, 8, 9)]
    singles += [(("uint_lit", 1),), (("uint_lit", 2),), (("bytes", 0),), (("bytes", 1),), (("bytes", 2),)]
    singles += [(("uint",),), (("sint",),), (("bool",),), (("align",),)]
    free = list(singles) + [(a, b) for a in base for b in base]
    bbase = [("bit",), ("uint",), ("sint",), ("nbits", 3)]
    bsingles = [(("bit",),) * n for n in (1, 2, 3, 9)]
    bsingles += [(("bool",),), (("uint",),), (("sint",),), (("nbits", 0),), (("nbits", 1),), (("nbits", 3),),
                 (("nbits", 9),), (("uint_lit", 1),), (("bits", 2),), (("bits", 9),), (("bytes", 1),), (("align",),)]
    blocked = list(bsingles) + [(a, b) for a in bbase for b in bbase] + [(("bool",), ("sint",)), (("uint",), ("bool",))]

    def dedupe(ps):
        seen = set()
        out = []
        for p in ps:
            if p not in seen:
                seen.add(p)
                out.append(p)
        return out

    return dedupe(free), dedupe(blocked)


PROGRAMS_FREE, PROGRAMS_BLOCK = _programs()
BLOCK_LENGTHS = list(range(-2, 19))


_FILES = {}


def files_for(min_bits, max_bits):
    """Sorted distinct byte strings: every bit string with min_bits <= length <= max_bits,
    padded to whole bytes with 0s and with 1s."""
    if (min_bits, max_bits) not in _FILES:
        _FILES[(min_bits, max_bits)] = _files_for(min_bits, max_bits)
    return _FILES[(min_bits, max_bits)]


def _files_for(min_bits, max_bits):
    out = set()
    for n in range(min_bits, max_bits + 1):
        nbytes = (n + 7) // 8
        padn = nbytes * 8 - n
        for v in range(1 << n):
            for pad in (0, (1 << padn) - 1):
                out.add(((v << padn) | pad).to_bytes(nbytes, "big") if nbytes else b"")
    return sorted(out, key=lambda b: (len(b), b))


def count_bitstrings(min_bits, max_bits):
    return sum(1 << n for n in range(min_bits, max_bits + 1))


def model_trace(bits, start, block, program):
    m = BitReaderModel(bits=bits)
    m.seek(0, 7 - start)
    if block is not None:
        m.bounded_block_begin(block)
    tr = []
    for prim in program:
        try:
            v = model_read(m, prim)
        except ModelEOF:
            tr.append(("eof", None, m.tell(), m.is_end_of_stream(), None))
            return tr
        tr.append(("ok", v, m.tell(), m.is_end_of_stream(), m.bits_remaining))
    if block is not None:
        unused = m.bounded_block_end()
        try:
            pad = m.read_bits(unused)
            tr.append(("end", (unused, pad), m.tell(), m.is_end_of_stream(), None))
        except ModelEOF:
            tr.append(("end-eof", unused, m.tell(), m.is_end_of_stream(), None))
    return tr


PREFIX_JUNK = b"\xa5\x5a\xff"


def _file_at(data, prefix):
    """A file object positioned at the first byte of `data`, `prefix` junk bytes in."""
    f = io.BytesIO(PREFIX_JUNK[:prefix] + data)
    f.seek(prefix)
    return f


def shift_trace(tr, prefix):
    """The model's positions when the stream starts `prefix` bytes into the file."""
    if not prefix:
        return tr
    return [s[:2] + ((s[2][0] + prefix, s[2][1]),) + s[3:] for s in tr]


def serdes_trace(I, data, start, block, program, prefix=0):
    r = I.Reader(_file_at(data, prefix))
    r.seek(prefix, 7 - start)
    if block is not None:
        r.bounded_block_begin(block)
    tr = []
    for prim in program:
        try:
            v = serdes_read(r, prim)
        except EOFError:
            tr.append(("eof", None, r.tell(), r.is_end_of_stream(), None))
            return tr
        tr.append(("ok", v, r.tell(), r.is_end_of_stream(), r.bits_remaining))
    if block is not None:
        unused = r.bounded_block_end()
        try:
            pad = _norm(r.read_bitarray(unused))
            tr.append(("end", (unused, pad), r.tell(), r.is_end_of_stream(), None))
        except EOFError:
            tr.append(("end-eof", unused, r.tell(), r.is_end_of_stream(), None))
    return tr


def decoder_trace(I, data, start, block, program, prefix=0):
    """None if the decoder cannot be positioned (file shorter than the start offset)."""
    dio = I.dio
    st = I.State()
    dio.init_io(st, _file_at(data, prefix))
    try:
        dio.read_nbits(st, start)
    except I.UEOS:
        return None
    bounded = block is not None
    if bounded:
        st["bits_left"] = block
    tr = []
    for prim in program:
        try:
            v = dec_read(dio, st, prim, bounded)
        except I.UEOS:
            tr.append(("eof", None, dio.tell(st), dio.is_end_of_stream(st), None))
            return tr
        tr.append(("ok", v, dio.tell(st), dio.is_end_of_stream(st), st["bits_left"] if bounded else None))
    if bounded:
        try:
            dio.flush_inputb(st)
            tr.append(("end", None, dio.tell(st), dio.is_end_of_stream(st), None))
        except I.UEOS:
            tr.append(("end-eof", None, dio.tell(st), dio.is_end_of_stream(st), None))
    return tr


def compare_decoder(mt, dt, program):
    """The decoder reports no padding/unused values and clamps bits_left at 0."""
    if len(mt) != len(dt):
        return "decoder.io trace %r != model %r" % (dt, mt)
    for i, (a, b) in enumerate(zip(mt, dt)):
        if a[0] != b[0] or a[2] != b[2] or a[3] != b[3]:
            return "decoder.io step %d: %r, model %r" % (i, b, a)
        if a[0] == "ok":
            if not (program[i][0] == "align") and a[1] != b[1]:
                return "decoder.io step %d value %r, model %r" % (i, b[1], a[1])
            want = None if a[4] is None else max(a[4], 0)
            if want != b[4]:
                return "decoder.io step %d bits_left %r, model %r" % (i, b[4], want)
    return None


def reader_case(data, start, block, program):
    """-> (problems, outcome class)."""
    I = impl()
    problems = []
    mt = model_trace(MB.bytes_to_bits(data), start, block, program)
    try:
        st = serdes_trace(I, data, start, block, program)
    except Exception as e:  # noqa
        st = [("raised", type(e).__name__, str(e))]
    if st != mt:
        problems.append("BitstreamReader trace %r != model %r" % (st, mt))
    if len(data) <= 2:
        prefix = 1 + (len(program) + start) % 3
        mtp = shift_trace(mt, prefix)
        try:
            stp = serdes_trace(I, data, start, block, program, prefix)
        except Exception as e:  # noqa
            stp = [("raised", type(e).__name__, str(e))]
        if stp != mtp:
            problems.append("BitstreamReader on a stream starting at byte %d: trace %r != model %r" % (prefix, stp, mtp))
        if dec_supports(program, block):
            try:
                dtp = decoder_trace(I, data, start, block, program, prefix)
            except Exception as e:  # noqa
                dtp = [("raised", type(e).__name__, str(e))]
            if dtp is not None:
                p = compare_decoder(mtp, dtp, program)
                if p:
                    problems.append("stream starting at byte %d: %s" % (prefix, p))
    dec = "nodec"
    if dec_supports(program, block):
        try:
            dt = decoder_trace(I, data, start, block, program)
        except Exception as e:  # noqa
            dt = [("raised", type(e).__name__, str(e))]
        if dt is None:
            dec = "dec-unpositionable"
        else:
            dec = "dec"
            p = compare_decoder(mt, dt, program)
            if p:
                problems.append(p)
    last = mt[-1][0] if mt else "empty"
    past = "past-end" if any(s[0] == "ok" and s[4] is not None and s[4] < 0 for s in mt) else "within"
    return problems, "%s/%s/%s/%s" % ("free" if block is None else "block", last, past, dec)


def _shard_readers(arg):
    space_id, files_spec, starts, blocks, which, offset, stride = arg
    I = impl()
    files = files_for(*files_spec)
    programs = PROGRAMS_FREE if which == "free" else PROGRAMS_BLOCK
    dec_ok = {}
    for blk in blocks:
        for p in programs:
            dec_ok[(p, blk)] = dec_supports(p, blk)
    t = Tally()
    bits_cache = {}
    for _, (data, start, block) in space.product_shard([files, starts, blocks], offset, stride):
        bits = bits_cache.get(data)
        if bits is None:
            bits = bits_cache[data] = MB.bytes_to_bits(data)
        for program in programs:
            mt = model_trace(bits, start, block, program)
            bad = None
            try:
                st = serdes_trace(I, data, start, block, program)
            except Exception as e:  # noqa
                st = [("raised", type(e).__name__, str(e))]
            if st != mt:
                bad = "BitstreamReader trace %r != model %r" % (st, mt)
            dec = "nodec"
            if dec_ok[(program, block)]:
                try:
                    dt = decoder_trace(I, data, start, block, program)
                except Exception as e:  # noqa
                    dt = [("raised", type(e).__name__, str(e))]
                if dt is None:
                    dec = "dec-unpositionable"
                else:
                    dec = "dec"
                    p = compare_decoder(mt, dt, program)
                    if p and not bad:
                        bad = p
            if not bad and len(data) <= 2:
                # the same stream starting 1..3 bytes into the file: same values, positions shifted
                prefix = 1 + (len(program) + start) % 3
                mtp = shift_trace(mt, prefix)
                try:
                    stp = serdes_trace(I, data, start, block, program, prefix)
                except Exception as e:  # noqa
                    stp = [("raised", type(e).__name__, str(e))]
                if stp != mtp:
                    bad = "BitstreamReader on a stream starting at byte %d: trace %r != model %r" % (prefix, stp, mtp)
                elif dec == "dec":
                    try:
                        dtp = decoder_trace(I, data, start, block, program, prefix)
                    except Exception as e:  # noqa
                        dtp = [("raised", type(e).__name__, str(e))]
                    p = compare_decoder(mtp, dtp, program)
                    if p:
                        bad = "stream starting at byte %d: %s" % (prefix, p)
                t.n["reader_cases_with_prefix"] += 1
            last = mt[-1][0] if mt else "empty"
            past = "within"
            for s in mt:
                if s[0] == "ok" and s[4] is not None and s[4] < 0:
                    past = "past-end"
                    break
            t.n["reader_cases:" + space_id] += 1
            t.hist["reader"]["%s/%s/%s/%s" % (which, last, past, dec)] += 1
            if bad:
                t.violation(bad, {"part": "reader", "data": data.hex(), "start": start, "block": block,
                                  "program": [list(p) for p in program]})
    return t


# ---------------------------------------------------------------------------
# Part B: writer values
# ---------------------------------------------------------------------------
# op = ("bit",v) ("nbits",k,v) ("uint_lit",n,v) ("uint",v) ("sint",v) ("bytes",n,hex) ("bits",n,(b,...))

def model_write(m, op):
    k = op[0]
    if k == "bit":
        return m.write_bit(op[1])
    if k == "nbits":
        return m.write_nbits(op[1], op[2])
    if k == "uint_lit":
        return m.write_uint_lit(op[1], op[2])
    if k == "uint":
        return m.write_uint(op[1])
    if k == "sint":
        return m.write_sint(op[1])
    if k == "bytes":
        return m.write_bytes(op[1], bytes.fromhex(op[2]))
    if k == "bits":
        return m.write_bits(op[1], op[2])
    if k == "align":
        return m.byte_align(0)
    raise ValueError(op)


def impl_write(I, w, op):
    """The calls bitstream.serdes.Serialiser makes for each primitive."""
    k = op[0]
    if k == "bit":
        return w.write_bit(op[1])
    if k == "nbits":
        return w.write_nbits(op[1], op[2])
    if k == "uint_lit":
        return w.write_uint_lit(op[1], op[2])
    if k == "uint":
        return w.write_uint(op[1])
    if k == "sint":
        return w.write_sint(op[1])
    if k == "bytes":
        return w.write_bytes(op[1], bytes.fromhex(op[2]))
    if k == "bits":
        if len(op) > 3 and op[3] == "little":
            return w.write_bitarray(op[1], I.bitarray(list(op[2]), endian="little"))
        return w.write_bitarray(op[1], I.bitarray(list(op[2])))
    if k == "align":
        _, b = w.tell()
        n = 0 if b == 7 else b + 1
        w.write_bitarray(n, I.bitarray())
        return n
    raise ValueError(op)


def read_prim_for(op):
    """The read primitive mirroring a write op, and the value it must give back."""
    k = op[0]
    if k == "bit":
        return ("bit",), 1 if op[1] else 0
    if k == "nbits":
        return ("nbits", op[1]), op[2]
    if k == "uint_lit":
        return ("uint_lit", op[1]), op[2]
    if k == "uint":
        return ("uint",), op[1]
    if k == "sint":
        return ("sint",), op[1]
    if k == "bytes":
        b = bytes.fromhex(op[2])
        return ("bytes", op[1]), b + b"\x00" * (op[1] - len(b))
    if k == "bits":
        return ("bits", op[1]), tuple(op[2]) + (0,) * (op[1] - len(op[2]))
    if k == "align":
        return ("align",), None
    raise ValueError(op)


def filler(start):
    return 0b1011001 >> (7 - start)


def model_status(fn):
    try:
        fn()
        return "ok"
    except ModelOutOfRange:
        return "range"
    except ModelBlockOverflow:
        return "overflow"
    except ModelUsageError:
        return "usage"
    except ModelEOF:
        return "eof"


def writer_status(I, fn):
    """-> (status, returned value)"""
    try:
        return "ok", fn()
    except I.OutOfRangeError:
        return "range", None
    except ValueError as e:
        return ("overflow" if type(e) is ValueError else "other:" + type(e).__name__), None
    except Exception as e:  # noqa
        return ("usage" if type(e) is Exception else "other:" + type(e).__name__), None


def writer_case(start, block, op):
    """-> (problems, outcome class)."""
    I = impl()
    problems = []
    # model
    m = BitWriterModel()
    m.write_nbits(start, filler(start))
    if block is not None:
        m.bounded_block_begin(block)
    m_t0, m_rem0 = m.tell(), m.bits_remaining
    ms = model_status(lambda: model_write(m, op))
    m_t1, m_rem1 = m.tell(), m.bits_remaining
    m_unused = None
    if ms != "overflow":
        if block is not None:
            m_unused = m.bounded_block_end()
        m_bytes = m.to_bytes()
    # implementation
    f = io.BytesIO()
    w = I.Writer(f)
    w.write_nbits(start, filler(start))
    if block is not None:
        w.bounded_block_begin(block)
    t0 = w.tell()
    ws, _ = writer_status(I, lambda: impl_write(I, w, op))
    t1, rem1 = w.tell(), w.bits_remaining
    if ws != ms:
        problems.append("writer outcome %r, model %r" % (ws, ms))
        return problems, "mismatch"
    if t0 != m_t0:
        problems.append("tell before %r, model %r" % (t0, m_t0))
    cls = ("free" if block is None else "block") + "/" + ms
    if ms == "overflow":
        return problems, cls
    unused = None
    if block is not None:
        unused = w.bounded_block_end()
    w.flush()
    data = f.getvalue()
    if (t1, rem1, unused, data) != (m_t1, m_rem1, m_unused, m_bytes):
        problems.append("writer (tell, bits_remaining, unused, bytes) = %r, model %r"
                        % ((t1, rem1, unused, data.hex()), (m_t1, m_rem1, m_unused, m_bytes.hex())))
    if ms == "range":
        if t1 != t0 or rem1 != m_rem0:
            problems.append("out-of-range write moved the writer: tell %r -> %r, bits_remaining %r -> %r" % (t0, t1, m_rem0, rem1))
        return problems, cls
    # lengths
    if block is None and op[0] in ("uint", "sint"):
        n = MB.to_offset(t1) - MB.to_offset(t0)
        got = I.eg.exp_golomb_length(op[1]) if op[0] == "uint" else I.eg.signed_exp_golomb_length(op[1])
        want = MB.exp_golomb_length(op[1]) if op[0] == "uint" else MB.signed_exp_golomb_length(op[1])
        if not (n == got == want):
            problems.append("%s(%d): %d bits written, length function says %r, model %r" % (op[0], op[1], n, got, want))
    if m_rem1 is not None and m_rem1 < 0:
        cls += "/past-end"
    # read-back
    prim, want = read_prim_for(op)
    r = I.Reader(io.BytesIO(data))
    r.seek(*t0)
    if block is not None:
        r.bounded_block_begin(block)
    try:
        v = serdes_read(r, prim)
        got = (v, r.tell(), r.bits_remaining)
    except EOFError:
        got = ("eof",)
    if got != (want, m_t1, m_rem1):
        problems.append("BitstreamReader read back %r, expected %r" % (got, (want, m_t1, m_rem1)))
    if dec_supports((prim,), block):
        dio = I.dio
        st = I.State()
        dio.init_io(st, io.BytesIO(data))
        try:
            dio.read_nbits(st, start)
            if block is not None:
                st["bits_left"] = block
            v = dec_read(dio, st, prim, block is not None)
            got = (v, dio.tell(st), st["bits_left"] if block is not None else None)
        except I.UEOS:
            got = ("eof",)
        exp = (want, m_t1, None if m_rem1 is None else max(m_rem1, 0))
        if got != exp:
            problems.append("decoder.io read back %r, expected %r" % (got, exp))
        cls += "/dec"
    return problems, cls


def writer_values(quick):
    ops = [("bit", 0), ("bit", 1)]
    for k in range(0, 10):
        for v in range(-1, (1 << k) + 1):
            ops.append(("nbits", k, v))
    for n in (0, 1, 2):
        for v in sorted(set([-1, 0, 1, 0xA5, (1 << (8 * n)) - 1, 1 << (8 * n), (1 << (8 * n)) + 1, 1 << (8 * n) >> 1])):
            ops.append(("uint_lit", n, v))
    hi = 130 if quick else 600
    maxj = 64 if quick else 200
    big = sorted(set(x for j in range(7, maxj + 1) for x in ((1 << j) - 1, (1 << j), (1 << j) - 2)))
    # far beyond any machine word (every tier): the codes are hundreds / thousands of bits long
    big += [x for j in (127, 128, 255, 256, 257, 300, 511, 512, 1000, 4096) for x in ((1 << j) - 2, (1 << j) - 1, 1 << j)]
    big = sorted(set(x for x in big if x > hi))
    for v in list(range(-2, hi + 1)) + big:
        ops.append(("uint", v))
    for v in list(range(-hi, hi + 1)) + big + [-x for x in big]:
        ops.append(("sint", v))
    alphabet = ["00", "ff", "a5"]
    for n in range(0, 4):
        for ln in range(0, 5):
            for bs in itertools.product(alphabet, repeat=ln):
                ops.append(("bytes", n, "".join(bs)))
    for n in range(0, 6):
        for ln in range(0, n + 2):
            for bs in itertools.product((0, 1), repeat=ln):
                ops.append(("bits", n, tuple(bs)))
    # longer bit arrays (whole bytes after the next byte boundary), in both bitarray endiannesses:
    # the bits written are the array's *items* in order, whatever its in-memory byte layout
    for n in (8, 9, 16, 17, 24, 31):
        for pat in ((1,) + (0,) * (n - 1), (0,) * (n - 1) + (1,), tuple((i * 5 // 3) % 2 for i in range(n)), (1, 1, 0, 1, 0, 0, 0, 1, 0, 1) + (0,) * max(0, n - 10)):
            pat = tuple(pat[:n])
            for endian in ("big", "little"):
                ops.append(("bits", n, pat, endian))
    for n in range(0, 6):
        for bs in itertools.product((0, 1), repeat=n):
            ops.append(("bits", n, tuple(bs), "little"))
    return ops


def _shard_writer(arg):
    quick, offset, stride = arg
    ops = writer_values(quick)
    blocks = [None] + BLOCK_LENGTHS
    t = Tally()
    for _, (op, start, block) in space.product_shard([ops, list(range(8)), blocks], offset, stride):
        problems, cls = writer_case(start, block, op)
        t.n["writer_cases"] += 1
        t.hist["writer"][op[0] + "/" + cls] += 1
        if problems:
            t.violation(problems[0], {"part": "writer", "start": start, "block": block, "op": list(op)})
    return t


def length_case(v):
    """exp-Golomb length functions against the model and against an actual write."""
    I = impl()
    problems = []
    for name, fn, mfn, wr in (("exp_golomb_length", I.eg.exp_golomb_length, MB.exp_golomb_length, "write_uint"),
                              ("signed_exp_golomb_length", I.eg.signed_exp_golomb_length, MB.signed_exp_golomb_length, "write_sint")):
        try:
            want = mfn(v)
        except ModelOutOfRange:
            want = "range"
        try:
            got = fn(v)
        except I.OutOfRangeError:
            got = "range"
        if got != want or (got != "range" and type(got) is not int):
            problems.append("%s(%d) = %r, model %r" % (name, v, got, want))
        w = I.Writer(io.BytesIO())
        try:
            getattr(w, wr)(v)
            n = MB.to_offset(w.tell())
        except I.OutOfRangeError:
            n = "range"
        if n != want:
            problems.append("%s(%d) wrote %r bits, model length %r" % (wr, v, n, want))
    return problems


def length_values(quick):
    hi = 2000 if quick else 70000
    maxj = 200
    vals = set(range(-hi, hi + 1))
    for j in range(0, maxj + 1):
        for d in (-2, -1, 0, 1):
            vals.add((1 << j) + d)
            vals.add(-((1 << j) + d))
    return sorted(vals)


def _shard_lengths(arg):
    quick, offset, stride = arg
    vals = length_values(quick)
    t = Tally()
    for i in range(offset, len(vals), stride):
        v = vals[i]
        problems = length_case(v)
        t.n["length_cases"] += 1
        t.hist["lengths"]["negative" if v < 0 else "zero" if v == 0 else "positive"] += 1
        if problems:
            t.violation(problems[0], {"part": "length", "value": str(v)})
    return t


# ---------------------------------------------------------------------------
# Part B2: seeks in a long stream (several I/O buffer sizes long)
# ---------------------------------------------------------------------------
LONG_LEN = 9000
LONG_POS = [0, 1, 10, 511, 512, 4095, 4096, 4097, 8191, 8192, 8193, 8990]


def long_data():
    return bytes(((i * 7) ^ (i >> 8) ^ (i >> 3)) & 0xFF for i in range(LONG_LEN))


def long_seek_case(p1, p2, p3):
    """seek(p1) read; seek(p2) read 2 bytes + 3 bits; seek(p3) read: values and positions."""
    I = impl()
    data = long_data()
    r = I.Reader(io.BytesIO(data))
    problems = []
    for k, (p, nbytes) in enumerate(((p1, 1), (p2, 2), (p3, 1))):
        r.seek(p, 7)
        got = r.read_nbits(8 * nbytes)
        want = int.from_bytes(data[p : p + nbytes], "big")
        if got != want or r.tell() != (p + nbytes, 7):
            problems.append("long stream: after seeks %r, read %d byte(s) at byte %d -> %#x at %r, the file holds %#x" % ([p1, p2, p3][: k + 1], nbytes, p, got, r.tell(), want))
            break
        got3 = r.read_nbits(3)
        if got3 != data[p + nbytes] >> 5:
            problems.append("long stream: 3 bits after byte %d -> %d, the file holds %d" % (p + nbytes - 1, got3, data[p + nbytes] >> 5))
            break
    return problems


def _shard_long(arg):
    offset, stride = arg
    t = Tally()
    cases = [(a, b, c) for a in LONG_POS for b in LONG_POS for c in LONG_POS]
    for case in cases[offset::stride]:
        t.n["long_seek_cases"] += 1
        try:
            pr = long_seek_case(*case)
        except Exception as e:  # noqa
            pr = ["long stream: seeks %r raised %s" % (list(case), type(e).__name__)]
        if pr:
            t.violation(pr[0], {"part": "long", "seeks": list(case)})
    return t


# ---------------------------------------------------------------------------
# Part C: operation histories
# ---------------------------------------------------------------------------
# machines: "writer", "reader", "decoder".  Ops are plain tuples.

W_OPS = [
    ("bit", 1), ("bit", 0),
    ("nbits", 3, 5), ("nbits", 3, 0), ("nbits", 3, 8),
    ("uint", 0), ("uint", 3), ("uint", -1),
    ("sint", -2), ("sint", 1),
    ("bytes", 1, "a5"), ("bits", 2, (1,)), ("uint_lit", 1, 0x81),
    ("seek", 0, 7), ("seek", 0, 3), ("seek", 1, 7), ("seek", 1, 2),
    ("tell",), ("flush",),
    ("begin", 0), ("begin", 3), ("begin", 9), ("end",),
    ("align",),
]
R_OPS = [
    ("bit",), ("nbits", 3), ("uint",), ("sint",), ("bytes", 1), ("bits", 2), ("uint_lit", 1), ("bool",),
    ("seek", 0, 7), ("seek", 0, 3), ("seek", 1, 7), ("seek", 1, 2),
    ("tell",),
    ("begin", 0), ("begin", 3), ("begin", 9), ("begin", -1), ("end",),
    ("align",),
]
D_OPS = [
    ("bit",), ("bool",), ("nbits", 3), ("uint_lit", 1), ("uint",), ("sint",), ("align",), ("tell",),
    ("setblock", 0), ("setblock", 3), ("setblock", 9),
    ("bitb",), ("boolb",), ("uintb",), ("sintb",), ("flushb",),
]
R_FILES = ["", "5a", "1b00f17c"]
W_FILES = ["", "ffc3"]  # the second: writing over existing content, searched one level less deep
DEPTH_ADJUST = {("writer", "ffc3"): -1}
MACHINES = {"writer": (W_OPS, W_FILES), "reader": (R_OPS, R_FILES), "decoder": (D_OPS, R_FILES)}


def _tup(op):
    return tuple(tuple(x) if isinstance(x, list) else x for x in op)


def writer_key(w, f):
    return ("W", w._byte_offset, w._next_bit, w._bits_remaining, w._current_byte, f.tell(), f.getvalue())


def reader_key(r, f):
    return ("R", r._byte_offset, r._next_bit, r._bits_remaining, r._current_byte, f.tell(), f.getvalue())


def decoder_key(st, f):
    return ("D", st.get("current_byte"), st.get("next_bit"), st.get("bits_left"), f.tell(), f.getvalue())


def run_history(machine, init, hist):
    """Replay `hist` on a fresh real object and on the model.

    -> (problems, key, terminal, model_state).  key is the implementation's own state.
    """
    I = impl()
    data0 = bytes.fromhex(init)
    problems = []
    terminal = False
    if machine == "writer":
        f = io.BytesIO(data0)
        w = I.Writer(f)
        m = BitWriterModel(data0)
        steps = []
        for i, op in enumerate(hist):
            k = op[0]
            val = mval = None
            if k == "seek":
                ws, _ = writer_status(I, lambda: w.seek(op[1], op[2]))
                ms = model_status(lambda: m.seek(op[1], op[2]))
            elif k == "tell":
                ws, val = "ok", w.tell()
                ms, mval = "ok", m.tell()
            elif k == "flush":
                ws, _ = writer_status(I, w.flush)
                ms = "ok"
            elif k == "begin":
                ws, _ = writer_status(I, lambda: w.bounded_block_begin(op[1]))
                ms = model_status(lambda: m.bounded_block_begin(op[1]))
            elif k == "end":
                ws, val = writer_status(I, w.bounded_block_end)
                box = []
                ms = model_status(lambda: box.append(m.bounded_block_end()))
                mval = box[0] if box else None
            else:
                ws, val = writer_status(I, lambda: impl_write(I, w, op))
                if k != "align":
                    val = None
                box = []
                ms = model_status(lambda: box.append(model_write(m, op)))
                mval = box[0] if box and k == "align" else None
            if ws != ms:
                problems.append("step %d %r: writer outcome %r, model %r" % (i, op, ws, ms))
                return problems, ("bad",), True, None
            if ms == "overflow":
                terminal = True
                steps.append((op, ms, None))
                break
            obs = (val, w.tell(), w.bits_remaining, w.is_end_of_stream())
            mobs = (mval, m.tell(), m.bits_remaining, True)
            if obs != mobs:
                problems.append("step %d %r: writer (value, tell, bits_remaining, eos) %r, model %r" % (i, op, obs, mobs))
                return problems, ("bad",), True, None
            steps.append((op, ms, w.tell()))
        key = writer_key(w, f)
        if not terminal:
            w.flush()
            data = f.getvalue()
            if data != m.to_bytes():
                problems.append("after %r: file %s, model %s" % (hist, data.hex(), m.to_bytes().hex()))
                return problems, ("bad",), True, None
            p = mirror_read(I, data, steps)
            if p:
                problems.append(p)
                return problems, ("bad",), True, None
        return problems, key, terminal, m.state()

    if machine == "reader":
        f = io.BytesIO(data0)
        r = I.Reader(f)
        m = BitReaderModel(data0)
        for i, op in enumerate(hist):
            k = op[0]
            val = mval = None
            in_block = m.bits_remaining is not None
            try:
                if k == "seek":
                    r.seek(op[1], op[2])
                elif k == "tell":
                    val = r.tell()
                elif k == "begin":
                    r.bounded_block_begin(op[1])
                elif k == "end":
                    val = r.bounded_block_end()
                else:
                    val = serdes_read(r, op)
                rs = "ok"
            except EOFError:
                rs = "eof"
            except Exception as e:  # noqa
                rs = "usage" if type(e) is Exception else "other:" + type(e).__name__
            box = []
            if k == "seek":
                ms = model_status(lambda: m.seek(op[1], op[2]))
            elif k == "tell":
                ms, mval = "ok", m.tell()
            elif k == "begin":
                ms = model_status(lambda: m.bounded_block_begin(op[1]))
            elif k == "end":
                ms = model_status(lambda: box.append(m.bounded_block_end()))
                mval = box[0] if box else None
            else:
                ms = model_status(lambda: box.append(model_read(m, op)))
                mval = box[0] if box else None
            if rs != ms:
                problems.append("step %d %r: BitstreamReader outcome %r, model %r" % (i, op, rs, ms))
                return problems, ("bad",), True, None
            if ms == "eof" and in_block:
                if r.tell() != m.tell():
                    problems.append("step %d %r: EOF at %r, model %r" % (i, op, r.tell(), m.tell()))
                    return problems, ("bad",), True, None
                terminal = True
                break
            obs = (val, r.tell(), r.bits_remaining, r.is_end_of_stream())
            mobs = (mval, m.tell(), m.bits_remaining, m.is_end_of_stream())
            if obs != mobs:
                problems.append("step %d %r: BitstreamReader (value, tell, bits_remaining, eos) %r, model %r" % (i, op, obs, mobs))
                return problems, ("bad",), True, None
        return problems, reader_key(r, f), terminal, m.state()

    if machine == "decoder":
        dio = I.dio
        f = io.BytesIO(data0)
        st = I.State()
        dio.init_io(st, f)
        m = BitReaderModel(data0)
        for i, op in enumerate(hist):
            k = op[0]
            val = mval = None
            bounded = k in ("bitb", "boolb", "uintb", "sintb", "flushb")
            if bounded and m.bits_remaining is None:
                return problems, ("disabled",), True, None  # bits_left not yet set: not enabled
            try:
                if k == "tell":
                    val = dio.tell(st)
                elif k == "setblock":
                    st["bits_left"] = op[1]
                elif k == "flushb":
                    dio.flush_inputb(st)
                elif bounded:
                    val = dec_read(dio, st, (k[:-1],), True)
                else:
                    val = dec_read(dio, st, op, False)
                ds = "ok"
            except I.UEOS:
                ds = "eof"
            except Exception as e:  # noqa
                ds = "other:" + type(e).__name__
            box = []
            if k == "tell":
                ms, mval = "ok", m.tell()
            elif k == "setblock":
                ms = "ok"
                m.remaining = op[1]
            elif k == "flushb":
                ms = model_status(m.flush_block)
            elif bounded:
                ms = model_status(lambda: box.append(model_read(m, (k[:-1],))))
                mval = box[0] if box else None
            else:
                saved, m.remaining = m.remaining, None  # plain reads ignore the block
                ms = model_status(lambda: box.append(model_read(m, op)))
                m.remaining = saved
                mval = box[0] if box and k != "align" else None
            if ds != ms:
                problems.append("step %d %r: decoder.io outcome %r, model %r" % (i, op, ds, ms))
                return problems, ("bad",), True, None
            if ms == "eof" and bounded:
                if dio.tell(st) != m.tell():
                    problems.append("step %d %r: EOF at %r, model %r" % (i, op, dio.tell(st), m.tell()))
                    return problems, ("bad",), True, None
                terminal = True
                break
            bl = st.get("bits_left")
            obs = (val, dio.tell(st), bl, dio.is_end_of_stream(st))
            mobs = (mval, m.tell(), None if m.remaining is None else max(m.remaining, 0), m.is_end_of_stream())
            if obs != mobs:
                problems.append("step %d %r: decoder.io (value, tell, bits_left, eos) %r, model %r" % (i, op, obs, mobs))
                return problems, ("bad",), True, None
            if m.remaining is not None and m.remaining < 0:
                m.remaining = 0  # the decoder's counter saturates; nothing distinguishes the two
        return problems, decoder_key(st, f), terminal, m.state()
    raise ValueError(machine)


def mirror_read(I, data, steps):
    """Read back what a seek-free, error-free writer history wrote, with both readers,
    checking values and positions against the writer's own tell() after each step."""
    for op, status, _ in steps:
        if op[0] == "seek" or status == "overflow":
            return None
    steps = [s for s in steps if s[1] == "ok"]  # rejected ops wrote nothing
    r = I.Reader(io.BytesIO(data))
    dio = I.dio
    st = I.State()
    dio.init_io(st, io.BytesIO(data))
    dec = True
    in_block = False
    for i, (op, status, wtell) in enumerate(steps):
        k = op[0]
        if k in ("tell", "flush"):
            continue
        if k == "begin":
            r.bounded_block_begin(op[1])
            st["bits_left"] = op[1]
            in_block = True
            continue
        if k == "end":
            r.bounded_block_end()
            in_block = False
            continue
        prim, want = read_prim_for(op)
        try:
            v = serdes_read(r, prim)
        except EOFError:
            # bits past the end of the file can only be a partial final byte's padding
            return "read-back step %d %r: BitstreamReader hit EOF" % (i, op)
        if (want is not None and v != want) or r.tell() != wtell:
            return "read-back step %d %r: BitstreamReader (%r, %r), writer wrote %r and was at %r" % (i, op, v, r.tell(), want, wtell)
        if dec:
            if prim[0] not in (DEC_BOUNDED if in_block else DEC_UNBOUNDED):
                dec = False
                continue
            try:
                v = dec_read(dio, st, prim, in_block)
            except I.UEOS:
                return "read-back step %d %r: decoder.io hit EOF" % (i, op)
            if (want is not None and v != want) or dio.tell(st) != wtell:
                return "read-back step %d %r: decoder.io (%r, %r), writer wrote %r and was at %r" % (i, op, v, dio.tell(st), want, wtell)
    return None


def _explore(machine, init, root, depth, dedup, t):
    """Search below `root` (a history) for `depth` more ops."""
    ops = MACHINES[machine][0]
    k = len(ops)
    tag = "bfs" if dedup else "nd"
    seen = {}
    frontier = [list(root)]
    for d in range(depth):
        nxt = []
        for hist in frontier:
            for op in ops:
                h2 = hist + [op]
                problems, key, terminal, mstate = run_history(machine, init, h2)
                t.n[tag + "_executions"] += 1
                t.n[tag + "_executions:" + machine] += 1
                if problems:
                    t.violation(problems[0], {"part": "history", "machine": machine, "init": init, "history": h2})
                    t.n[tag + "_pruned"] += space.count_sequences_upto(k, depth - d - 1, 1)
                    continue
                if key == ("disabled",):
                    t.n[tag + "_disabled"] += 1
                    t.n[tag + "_pruned"] += space.count_sequences_upto(k, depth - d - 1, 1)
                    continue
                t.hist[tag + "_outcome"]["terminal" if terminal else "live"] += 1
                full = (init, key, terminal)
                t.distinct(tag + "_states:%s:%d" % (machine, len(h2)), full)
                if terminal:
                    t.n[tag + "_pruned"] += space.count_sequences_upto(k, depth - d - 1, 1)
                    continue
                if dedup:
                    if full in seen:
                        if seen[full][0] != mstate:
                            case = {"part": "history-pair", "machine": machine, "init": init, "history": h2, "other": seen[full][1]}
                            t.violation(history_pair_case(case)[0], case)
                        continue
                    seen[full] = (mstate, h2)
                nxt.append(h2)
        frontier = nxt
    if frontier:
        t.sample("history-deepest", {"part": "history", "machine": machine, "init": init, "history": frontier[-1]})
    return t


def history_pair_case(case):
    """Two histories that reach the same implementation state must reach the same model
    state (otherwise the implementation has forgotten something the property observes)."""
    a = [_tup(o) for o in case["history"]]
    b = [_tup(o) for o in case["other"]]
    pa, ka, ta, ma = run_history(case["machine"], case["init"], a)
    pb, kb, tb, mb = run_history(case["machine"], case["init"], b)
    if pa or pb:
        return pa + pb
    if (ka, ta) == (kb, tb) and ma != mb:
        return ["same implementation state %r after %r and %r, but model states differ: %r vs %r" % (ka, a, b, ma, mb)]
    return []


def _shard_history(arg):
    machine, init, root, depth, dedup = arg
    t = Tally()
    _explore(machine, init, [_tup(o) for o in root], depth, dedup, t)
    return t


def history_roots(machine, init, t, tag, dedup):
    """Levels 1 and 2 in the main process; returns the depth-2 roots."""
    ops = MACHINES[machine][0]
    k = len(ops)
    seen = set()
    roots = []
    level = [[]]
    for d in (1, 2):
        nxt = []
        for hist in level:
            for op in ops:
                h2 = hist + [op]
                problems, key, terminal, mstate = run_history(machine, init, h2)
                t.n[tag + "_executions"] += 1
                t.n[tag + "_executions:" + machine] += 1
                if problems:
                    t.violation(problems[0], {"part": "history", "machine": machine, "init": init, "history": h2})
                    t.n[tag + "_root_cut:%d" % d] += 1
                    continue
                if key == ("disabled",):
                    t.n[tag + "_disabled"] += 1
                    t.n[tag + "_root_cut:%d" % d] += 1
                    continue
                t.hist[tag + "_outcome"]["terminal" if terminal else "live"] += 1
                full = (init, key, terminal)
                t.distinct(tag + "_states:%s:%d" % (machine, len(h2)), full)
                if terminal:
                    t.n[tag + "_root_cut:%d" % d] += 1
                    continue
                if dedup:
                    if full in seen:
                        continue
                    seen.add(full)
                nxt.append(h2)
        level = nxt
    return level


# ---------------------------------------------------------------------------
# run
# ---------------------------------------------------------------------------

def _rotate(lst, seed):
    if not lst:
        return lst
    s = seed % len(lst)
    return lst[s:] + lst[:s]


def run(ctx):
    quick = ctx.quick
    total = Tally()
    shards = []  # (fn name, arg)
    NSH = 64

    # ---- Part A ----------------------------------------------------------
    starts = list(range(8))
    # secondary space ("extra"): longer bit strings at one start bit chosen by the seed
    extra_starts = [ctx.seed % 8]
    if quick:
        core_free, extra_free = (0, 9), (10, 12)
        core_block, extra_block = (0, 9), (10, 12)
        core_blocks = [-2, -1, 0, 1, 2, 3, 5, 9, 18]
        extra_blocks = [0, 2, 5, 18]
    else:
        core_free, extra_free = (0, 13), (14, 16)
        core_block, extra_block = (0, 12), (13, 16)
        core_blocks = BLOCK_LENGTHS
        extra_blocks = [-1, 0, 1, 2, 3, 5, 8, 13, 18]
    spaces = [
        ("core-free", core_free, starts, [None], "free"),
        ("core-block", core_block, starts, core_blocks, "block"),
        ("extra-free", extra_free, extra_starts, [None], "free"),
        ("extra-block", extra_block, extra_starts, extra_blocks, "block"),
    ]
    expected = {}
    for sid, spec, sts, blks, which in spaces:
        nfiles = len(files_for(*spec))
        nprog = len(PROGRAMS_FREE if which == "free" else PROGRAMS_BLOCK)
        expected[sid] = nfiles * len(sts) * len(blks) * nprog
        for off, stride in pool.strided(nfiles * len(sts) * len(blks), NSH):
            shards.append(("readers", (sid, spec, sts, blks, which, off, stride)))

    # ---- Part B ----------------------------------------------------------
    nops = len(writer_values(quick))
    expected_writer = nops * 8 * (1 + len(BLOCK_LENGTHS))
    for off, stride in pool.strided(expected_writer, NSH):
        shards.append(("writer", (quick, off, stride)))
    nlen = len(length_values(quick))
    for off, stride in pool.strided(nlen, 16):
        shards.append(("lengths", (quick, off, stride)))

    # ---- Part C ----------------------------------------------------------
    if quick:
        bfs_depth = {"writer": 4, "reader": 6, "decoder": 7}
        nd_depth = {"writer": 3, "reader": 4, "decoder": 4}
    else:
        bfs_depth = {"writer": 6, "reader": 8, "decoder": 9}
        nd_depth = {"writer": 5, "reader": 5, "decoder": 5}
    nd_expected = 0
    for machine in sorted(MACHINES):
        ops, inits = MACHINES[machine]
        for init in inits:
            adj = DEPTH_ADJUST.get((machine, init), 0)
            for tag, dedup, depth in (("bfs", True, bfs_depth[machine] + adj), ("nd", False, nd_depth[machine] + adj)):
                roots = history_roots(machine, init, total, tag, dedup)
                for root in roots:
                    shards.append(("history", (machine, init, root, depth - 2, dedup)))
                if not dedup:
                    nd_expected += space.count_sequences_upto(len(ops), depth, 1)
                    k = len(ops)
                    total.n["nd_pruned"] += total.n.pop("nd_root_cut:1", 0) * space.count_sequences_upto(k, depth - 1, 1)
                    total.n["nd_pruned"] += total.n.pop("nd_root_cut:2", 0) * space.count_sequences_upto(k, depth - 2, 1)
                else:
                    total.n.pop("bfs_root_cut:1", 0)
                    total.n.pop("bfs_root_cut:2", 0)

    for w in range(16):
        shards.append(("long", (w, 16)))
    fns = {"readers": _shard_readers, "writer": _shard_writer, "lengths": _shard_lengths, "history": _shard_history, "long": _shard_long}

    def dispatch(s):
        return fns[s[0]](s[1])

    # heaviest first (reader shards), rotated by the seed within each group
    order = {"readers": 0, "history": 1, "writer": 2, "lengths": 3, "long": 4}
    groups = {}
    for s in shards:
        groups.setdefault(s[0], []).append(s)
    ordered = []
    for name in sorted(groups, key=lambda n: order[n]):
        ordered += _rotate(groups[name], ctx.seed)
    total.merge(pool.map_shards(dispatch, ordered))

    # ---- completeness ----------------------------------------------------
    exhaustive = True
    for sid, n in expected.items():
        if total.n["reader_cases:" + sid] != n:
            exhaustive = False
            total.error("reader space %s: evaluated %d of %d" % (sid, total.n["reader_cases:" + sid], n))
    if total.n["writer_cases"] != expected_writer:
        exhaustive = False
        total.error("writer space: evaluated %d of %d" % (total.n["writer_cases"], expected_writer))
    if total.n["length_cases"] != nlen:
        exhaustive = False
        total.error("length space: evaluated %d of %d" % (total.n["length_cases"], nlen))
    if not total.violation_count and total.n["nd_executions"] + total.n["nd_pruned"] != nd_expected:
        exhaustive = False
        total.error("history enumeration without dedup: %d executed + %d cut below terminal/disabled != %d"
                    % (total.n["nd_executions"], total.n["nd_pruned"], nd_expected))
    # dedup soundness: every state the plain enumeration reaches at depth d, the BFS reached at depth <= d
    all_states = set()
    for name, st in total.sets.items():
        if name.startswith("bfs_states:"):
            all_states |= st
    if not total.violation_count:
        for machine in sorted(MACHINES):
            reached = set()
            for d in range(1, bfs_depth[machine] + 1):
                reached |= total.sets.get("bfs_states:%s:%d" % (machine, d), set())
                nd = total.sets.get("nd_states:%s:%d" % (machine, d), set())
                if d <= nd_depth[machine] and not nd <= reached:
                    total.error("dedup unsound for %s: %d states at depth %d reached only without dedup" % (machine, len(nd - reached), d))
    # ---- non-vacuity -----------------------------------------------------
    rh = total.hist["reader"]

    def some(hist, pred):
        return sum(v for k, v in hist.items() if pred(k))

    need = {
        "reader ok outside blocks with decoder": some(rh, lambda k: k.startswith("free/ok/") and k.endswith("/dec")),
        "reader eof outside blocks with decoder": some(rh, lambda k: k.startswith("free/eof/") and k.endswith("/dec")),
        "reader past the end of a block with decoder": some(rh, lambda k: k.startswith("block/") and "/past-end/" in k and k.endswith("/dec")),
        "reader eof inside a block": some(rh, lambda k: k.startswith("block/eof/")),
        "reader block padding hits eof": some(rh, lambda k: k.startswith("block/end-eof/")),
        "writer ok with read-back by the decoder": some(total.hist["writer"], lambda k: "/ok" in k and k.endswith("/dec")),
        "writer out of range": some(total.hist["writer"], lambda k: "/range" in k),
        "writer 0 past end rejected": some(total.hist["writer"], lambda k: "/overflow" in k),
        "writer 1s past end accepted": some(total.hist["writer"], lambda k: "/past-end" in k),
        "history terminal": total.hist["bfs_outcome"]["terminal"],
        "history live": total.hist["bfs_outcome"]["live"],
    }
    for what, n in sorted(need.items()):
        if n < 1:
            total.error("vacuous: no case with outcome class '%s'" % what)

    total.sample("reader", {"part": "reader", "data": "2b60", "start": 3, "block": 5, "program": [["uint"], ["sint"]]})
    total.sample("writer", {"part": "writer", "start": 5, "block": 4, "op": ["sint", -3]})
    total.sample("history", {"part": "history", "machine": "writer", "init": "", "history": [["nbits", 3, 5], ["seek", 1, 7], ["flush"]]})

    reader_cases = sum(total.n["reader_cases:" + sid] for sid in expected)
    traces = reader_cases + total.n["writer_cases"] + total.n["length_cases"] + total.n["bfs_executions"] + total.n["nd_executions"]
    total.n["reader_cases"] = reader_cases
    cov = {
        "states": len(all_states),
        "transitions": total.n["bfs_executions"] + total.n["nd_executions"],
        "traces_validated_against_impl": traces,
        "exhaustive": exhaustive and not total.errors,
        "product_sizes": dict(expected, writer=expected_writer, lengths=nlen, histories_without_dedup=nd_expected),
        "bounds": {
            "reader_bitstring_bits_core": {"outside_blocks": list(core_free), "inside_blocks": list(core_block)},
            "reader_bitstring_bits_extra_stratum": {
                "outside_blocks": list(extra_free), "inside_blocks": list(extra_block),
                "start_bit": "%d only (VERIF_SEED %% 8)" % extra_starts[0], "block_lengths": extra_blocks},
            "reader_files": {sid: len(files_for(*spec)) for sid, spec, _, _, _ in spaces},
            "reader_bitstrings_core": {"outside_blocks": count_bitstrings(*core_free), "inside_blocks": count_bitstrings(*core_block)},
            "reader_padding": "0s and 1s",
            "reader_programs_outside_blocks": len(PROGRAMS_FREE),
            "reader_programs_inside_blocks": len(PROGRAMS_BLOCK),
            "start_bits": starts,
            "block_lengths_core": [None] + core_blocks,
            "block_lengths_writer": [None] + BLOCK_LENGTHS,
            "writer_values": nops,
            "writer_uint_range": [-2, 130 if quick else 600],
            "writer_big_powers_up_to": "2**%d" % (64 if quick else 200),
            "length_values": nlen,
            "history_bfs_depth": bfs_depth,
            "history_depth_without_dedup": nd_depth,
            "history_alphabet_sizes": {m: len(MACHINES[m][0]) for m in sorted(MACHINES)},
            "history_initial_files": {"reader": R_FILES, "decoder": R_FILES, "writer": W_FILES},
            "history_depth_adjust": {"writer over existing content ffc3": -1},
        },
        "rule": "model_checking: reader programs, writer values and operation histories all compared step by step with models/bits.py",
    }
    return total, cov


# ---------------------------------------------------------------------------
# replay
# ---------------------------------------------------------------------------

def replay_case(case):
    part = case["part"]
    if part == "reader":
        program = tuple(_tup(p) for p in case["program"])
        problems, _ = reader_case(bytes.fromhex(case["data"]), case["start"], case["block"], program)
        return problems
    if part == "writer":
        op = _tup(case["op"])
        problems, _ = writer_case(case["start"], case["block"], op)
        return problems
    if part == "long":
        return long_seek_case(*case["seeks"])
    if part == "length":
        return length_case(int(case["value"]))
    if part == "history":
        hist = [_tup(o) for o in case["history"]]
        problems, _, _, _ = run_history(case["machine"], case["init"], hist)
        return problems
    if part == "history-pair":
        return history_pair_case(case)
    raise ValueError(part)
