"""C05 -- decoder test cases are conformant and decode to their intended pictures.

For every configuration of a bounded product, every generator in
DECODER_TEST_CASE_GENERATOR_REGISTRY is run to exhaustion
(DESIGN.md section 6, C05).
"""
import io
import os

import mc  # noqa
from mc import pool, vc2run
from mc.tally import Tally
from mc import space
from props import encfeat

PROPERTY = "C05"
LEVEL = "exploration"
ASSUMPTIONS = [
    "natural pictures are swapped for the test suite's small ones (tests/test_images), as tests/smaller_real_pictures.py does",
    "quick tier: a fixed core of configurations plus a VERIF_SEED-selected stratum of the full product; thorough: the full product",
    "families that intentionally change content (dangling data, signal range, lossless quantisation, custom quantisation matrices, real pictures, ramps, noise, sprites) are checked for conformance, parameters, picture counts and well-formedness only",
]

DOMAINS = [
    ("mode", ["hq", "ld", "hqll"]),
    ("wavelet", [(0, 0), (1, 1), (2, 2), (3, 3), (4, 4), (5, 5), (6, 6), (1, 4), (4, 0), (3, 6), (2, 5)]),
    ("depth", [(1, 0), (2, 0), (0, 1), (1, 1)]),
    ("slices", [(2, 1), (1, 2)]),
    ("fragment", [0, 1]),
    ("cdf", [0, 2]),
    ("pcm", [0, 1]),
    ("bits", [8, 10]),
    ("qm", ["auto", "custom"]),
]
MID_GREY_FAMILIES = ("static_gray", "padding_data", "slice_padding_data", "slice_prefix_bytes", "slice_size_scaler", "absent_next_parse_offset", "concatenated_sequences", "picture_numbers")
SPRITE_VARIANT_FAMILIES = ("repeated_sequence_headers", "source_parameters_encodings", "extended_transform_parameters")
PICTURE_NUMBERS = {
    "start_at_zero": [0, 1, 2, 3, 4, 5, 6, 7],
    "non_zero_start": [1000, 1001, 1002, 1003, 1004, 1005, 1006, 1007],
    "wrap_around": [4294967292, 4294967293, 4294967294, 4294967295, 0, 1, 2, 3],
    "odd_first_picture": [7, 8, 9, 10, 11, 12, 13, 14],
}


def config_at(i):
    vals = space.product_at([d for _, d in DOMAINS], i)
    return dict(zip([n for n, _ in DOMAINS], vals))


def n_configs():
    return space.product_size([d for _, d in DOMAINS])


def make_cf(cfg, name="c05"):
    from props import encspace

    kw = dict(encspace.mode_kw(cfg["mode"]))
    wi, wiho = cfg["wavelet"]
    dd, ddho = cfg["depth"]
    sx, sy = cfg["slices"]
    big = cfg["cdf"] == 2 or cfg["pcm"] == 1
    kw.update(
        wavelet_index=wi, wavelet_index_ho=wiho, dwt_depth=dd, dwt_depth_ho=ddho, slices_x=sx, slices_y=sy,
        fragment_slice_count=cfg["fragment"], color_diff_format_index=cfg["cdf"], picture_coding_mode=cfg["pcm"],
        frame_width=8, frame_height=8 if big else 4, quantization_matrix=cfg["qm"],
    )
    if cfg["bits"] == 10:
        kw.update(luma_offset=64, luma_excursion=876, color_diff_offset=512, color_diff_excursion=896)
    return encfeat.make_cf(name, **kw)


# Boundary configurations outside the product: unequal low-delay slice sizes on a 2-D slice grid,
# slices whose luma length crosses the 8-bit length-field boundary while chroma does not, big HQ slices.
EXTRAS = [
    dict(profile=0, slices_x=3, slices_y=2, picture_bytes=100),
    dict(profile=0, slices_x=2, slices_y=3, picture_bytes=61, frame_height=8),
    dict(profile=0, slices_x=4, slices_y=3, picture_bytes=131, frame_width=16, frame_height=8, dwt_depth=1),
    dict(profile=0, slices_x=3, slices_y=2, picture_bytes=7),
    dict(lossless=True, slices_x=1, slices_y=1, frame_width=32, frame_height=16, color_diff_format_index=1),
    dict(lossless=True, slices_x=1, slices_y=1, frame_width=32, frame_height=16, color_diff_format_index=2, dwt_depth=2),
    dict(lossless=True, slices_x=1, slices_y=1, frame_width=32, frame_height=8, color_diff_format_index=0, dwt_depth=0),
    dict(lossless=False, slices_x=1, slices_y=1, frame_width=32, frame_height=16, color_diff_format_index=1, picture_bytes=1500),
    dict(lossless=False, slices_x=2, slices_y=2, frame_width=16, frame_height=16, picture_bytes=1033, fragment_slice_count=3),
    # formats that match version-3-only presets (10-bit full range, 48 fps, UHDTV colour) with a symmetric,
    # unfragmented transform: the preset and the explicit spellings of the header need different versions
    dict(luma_offset=0, luma_excursion=1023, color_diff_offset=512, color_diff_excursion=1023),
    dict(frame_rate_numer=48, frame_rate_denom=1),
    dict(frame_rate_numer=120000, frame_rate_denom=1001, profile=0, picture_bytes=48),
    dict(color_primaries_index=3, color_matrix_index=4, transfer_function_index=5),
    dict(luma_offset=256, luma_excursion=3504, color_diff_offset=2048, color_diff_excursion=3584, lossless=True),
    # lossless configurations whose slices are NOT all the same size
    dict(lossless=True, slices_x=3, slices_y=1),
    dict(lossless=True, slices_x=5, slices_y=3, frame_width=24, frame_height=10, dwt_depth=1),
    dict(lossless=True, slices_x=3, slices_y=2, frame_width=8, frame_height=6, wavelet_index=1, dwt_depth=2, color_diff_format_index=1),
    # ratios that equal a preset / the base default in value but are not in lowest terms
    dict(frame_rate_numer=50, frame_rate_denom=2),
    dict(pixel_aspect_ratio_numer=24, pixel_aspect_ratio_denom=22, frame_rate_numer=60000, frame_rate_denom=2002),
]


def swap_pictures():
    from vc2_conformance_data import NATURAL_PICTURES_FILENAMES as NP

    paths = [os.path.join("/repo/tests/test_images", f) for f in ("square.raw", "wide.raw", "tall.raw")]
    if list(NP) != paths:
        NP[:] = paths


def decode(stream):
    from vc2_conformance.bitstream import autofill_and_serialise_stream

    f = io.BytesIO()
    autofill_and_serialise_stream(f, stream)
    return vc2run.validate(f.getvalue(), limits=False)


def all_ones_problem(stream):
    from vc2_conformance import bitstream as bs
    from vc2_conformance.pseudocode.state import State

    f = io.BytesIO()
    bs.autofill_and_serialise_stream(f, stream)
    with bs.Deserialiser(bs.BitstreamReader(io.BytesIO(f.getvalue()))) as des:
        bs.parse_stream(des, State())
    n_slices = 0
    qindices = set()
    for seq in des.context["sequences"]:
        for du in seq["data_units"]:
            td = None
            if "picture_parse" in du:
                td = du["picture_parse"]["wavelet_transform"]["transform_data"]
            elif "fragment_parse" in du and "fragment_data" in du["fragment_parse"]:
                td = du["fragment_parse"]["fragment_data"]
            if td is None:
                continue
            for sl in td.get("hq_slices", []):
                n_slices += 1
                qindices.add(sl["qindex"])
                for c in ("y", "c1", "c2"):
                    vals = sl["%s_transform" % c]
                    bad = [i for i, v in enumerate(vals) if v != 1]
                    if bad:
                        return "slice %d: %d of %d %s coefficients are not 1 (first at %d: %r)" % (n_slices - 1, len(bad), len(vals), c, bad[0], vals[bad[0]])
    if n_slices == 0:
        return "no high-quality slices found"
    if len(qindices) != 1 or 0 in qindices:
        return "qindex values %r" % sorted(qindices)
    return None


def strip(pic):
    return (pic["Y"], pic["C1"], pic["C2"])


def check_config(cfg):
    """Returns (problems, n_cases, families)."""
    from vc2_conformance.test_cases import DECODER_TEST_CASE_GENERATOR_REGISTRY as REG
    from vc2_conformance.bitstream import Stream
    from vc2_conformance.encoder import make_sequence
    from vc2_conformance import picture_generators as pg
    from vc2_conformance.encoder.exceptions import UnsatisfiableCodecFeaturesError

    import logging

    logging.disable(logging.WARNING)
    swap_pictures()
    cf = encfeat.make_cf("c05x", **cfg["extra"]) if "extra" in cfg else make_cf(cfg)
    vp, pcm = cf["video_parameters"], cf["picture_coding_mode"]
    problems = []
    names = set()
    families = set()
    (w, h), (cw, ch), ld, cd = encfeat.picture_geometry(cf)
    mid = ((1 << (ld - 1)), (1 << (cd - 1)))
    try:
        plain_sprite = decode(Stream(sequences=[make_sequence(cf, pg.static_sprite(vp, pcm))]))
    except UnsatisfiableCodecFeaturesError as e:
        return [], 0, {"refused:" + type(e).__name__}
    if plain_sprite.kind != "accept":
        return ["plain static_sprite encoding not accepted: %s" % plain_sprite.label], 0, families
    plain = [strip(p[0]) for p in plain_sprite.pictures]
    n = 0
    known = []

    def all_cases():
        """Every registered generator run to exhaustion; one generator failing does not hide the others."""
        from vc2_conformance.test_cases import normalise_test_case_generator

        for g in REG.iter_registered_functions():
            it = normalise_test_case_generator(g, cf)
            while True:
                try:
                    yield next(it)
                except StopIteration:
                    break
                except UnsatisfiableCodecFeaturesError as e:
                    families.add("refused:" + type(e).__name__)
                    break
                except Exception as e:  # noqa
                    import traceback as _tb

                    last = _tb.extract_tb(e.__traceback__)[-1]
                    if g.__name__ == "signal_range" and cf["dwt_depth"] == 0 and cf["dwt_depth_ho"] == 0 and isinstance(e, KeyError) and "vc2_bit_widths" in last.filename:
                        known.append(("F11", g.__name__))
                    else:
                        problems.append("test case generator %s raised %s: %s" % (g.__name__, type(e).__name__, e))
                    break

    for tc in all_cases():
        n += 1
        fam = tc.case_name
        families.add(fam)
        if tc.name in names:
            problems.append("duplicate test case name %s" % tc.name)
        names.add(tc.name)
        try:
            v = decode(tc.value)
        except Exception as e:  # noqa
            n_slices = cf["slices_x"] * cf["slices_y"]
            one_byte_slice = int(cf["profile"]) == 0 and cf["picture_bytes"] is not None and cf["picture_bytes"] // n_slices < 2
            if one_byte_slice and fam == "slice_padding_data" and (tc.subcase_name or "").startswith("Y_") and type(e).__name__ == "OutOfRangeError":
                known.append(("F10", tc.name))
            else:
                problems.append("%s: could not be serialised: %s: %s" % (tc.name, type(e).__name__, e))
            continue
        if v.kind != "accept":
            problems.append("%s: validator %s: %s" % (tc.name, v.label, str(v.exc)[:160]))
            continue
        if not v.pictures and (fam in MID_GREY_FAMILIES or fam in SPRITE_VARIANT_FAMILIES):
            problems.append("%s: no pictures decoded" % tc.name)
            continue
        for j, (pic, dvp, dpcm) in enumerate(v.pictures):
            if dict(dvp) != dict(vp) or dpcm != int(pcm):
                problems.append("%s: picture %d decoded with different video parameters / coding mode" % (tc.name, j))
                break
            if (len(pic["Y"]), len(pic["Y"][0]), len(pic["C1"]), len(pic["C1"][0])) != (h, w, ch, cw):
                problems.append("%s: picture %d has wrong dimensions" % (tc.name, j))
                break
        if fam in MID_GREY_FAMILIES:
            for j, (pic, _, _) in enumerate(v.pictures):
                if any(s != mid[0] for r in pic["Y"] for s in r) or any(s != mid[1] for c in ("C1", "C2") for r in pic[c] for s in r):
                    problems.append("%s: picture %d is not exact mid-grey" % (tc.name, j))
                    break
        if fam in SPRITE_VARIANT_FAMILIES:
            got = [strip(p[0]) for p in v.pictures]
            if len(got) % len(plain) != 0:
                problems.append("%s: %d pictures, plain encoding has %d" % (tc.name, len(got), len(plain)))
            else:
                for j, g in enumerate(got):
                    if g != plain[j % len(plain)]:
                        problems.append("%s: picture %d differs from the plain encoding of the same source" % (tc.name, j))
                        break
        if fam == "lossless_quantization":
            # documented content: a non-zero qindex and EVERY transform coefficient of every
            # slice coded as 1 (read back through the deserialiser, whose coefficient counts come
            # from the slice geometry, not from the generator's lists)
            p = all_ones_problem(tc.value)
            if p:
                problems.append("%s: %s" % (tc.name, p))
        if fam == "picture_numbers":
            want = PICTURE_NUMBERS.get(tc.subcase_name)
            got = [p[0]["pic_num"] for p in v.pictures]
            if want is None or got != want[: len(got)] or len(got) != 8:
                problems.append("%s: picture numbers %r, documented %r" % (tc.name, got, want))
    for k in known:
        families.add("known:" + k[0])
    return problems, n, families


# -- two configurations in one process (test-case generators must not remember the first) -----------
HISTORY_CONFIGS = [
    dict(),
    dict(luma_offset=16, luma_excursion=219, color_diff_offset=128, color_diff_excursion=224),
    dict(frame_rate_numer=30000, frame_rate_denom=1001),
    dict(color_primaries_index=3, color_matrix_index=3, transfer_function_index=3),
    dict(pixel_aspect_ratio_numer=12, pixel_aspect_ratio_denom=11, top_field_first=False),
]


def history_pairs():
    n = len(HISTORY_CONFIGS)
    return [(i, j) for i in range(n) for j in range(n) if i != j]


def check_history(i, j):
    """All decoder test cases for configuration i, then for configuration j (same picture and
    coding geometry, other video parameters), in one process."""
    pr, n1, _ = check_config({"extra": HISTORY_CONFIGS[i]})
    if pr:
        return ["first configuration %r: %s" % (HISTORY_CONFIGS[i], pr[0])], n1
    pr, n2, _ = check_config({"extra": HISTORY_CONFIGS[j]})
    if pr:
        return ["configuration %r generated after %r in the same process: %s" % (HISTORY_CONFIGS[j], HISTORY_CONFIGS[i], pr[0])], n1 + n2
    return [], n1 + n2


def selected_indices(tier, seed):
    total = n_configs()
    if tier == "thorough":
        if os.environ.get("VERIF_C05_FULL") == "1":
            return list(range(total))
        # every second configuration of the full product (offset chosen by the seed) plus the
        # quick tier's core; VERIF_C05_FULL=1 runs all 8448 (about 1.5 h on 16 idle cores)
        return sorted(set(range(seed % 2, total, 2)) | set(range(0, total, 176)))
    core = list(range(0, total, 176))
    k = 141
    stratum = [i for i in range(seed % k, total, k)]
    return sorted(set(core + stratum))


def _shard(arg):
    tier, seed, w, n = arg
    t = Tally()
    idx = selected_indices(tier, seed)
    for hi, hj in history_pairs()[w::n]:
        pr, nc = check_history(hi, hj)
        t.count("history_pairs")
        t.count("test_cases", nc)
        if pr:
            t.violation("history: %s" % pr[0], {"history": [hi, hj]})
    for i in (idx + [-(k + 1) for k in range(len(EXTRAS))])[w::n]:
        cfg = config_at(i) if i >= 0 else {"extra": EXTRAS[-i - 1]}
        problems, ncases, fams = check_config(cfg)
        t.count("configs")
        t.count("test_cases", ncases)
        for f in fams:
            t.outcome("families", f)
            if f.startswith("known:"):
                t.known_finding(f[6:], {"index": i, "config": cfg})
        if problems:
            t.violation("%r: %s" % (cfg, problems[0]), {"index": i, "config": cfg, "n_problems": len(problems)})
        elif ncases:
            t.distinct("ok_configs", i)
            t.sample("config", {"index": i, "config": cfg, "test_cases": ncases})
    return t


def run(ctx):
    n = 64
    total = pool.map_shards(_shard, [(ctx.tier, ctx.seed, w, n) for w in range(n)])
    idx = selected_indices(ctx.tier, ctx.seed)
    if total.n["configs"] != len(idx) + len(EXTRAS):
        total.error("evaluated %d of %d" % (total.n["configs"], len(idx)))
    if total.ndistinct("ok_configs") * 2 < len(idx) and not total.violation_count:
        total.error("vacuous: %d of %d configurations produced test cases" % (total.ndistinct("ok_configs"), len(idx)))
    cov = {
        "evaluations": total.n["test_cases"],
        "distinct_nontrivial": total.ndistinct("ok_configs"),
        "rule": "for each selected configuration every generator of DECODER_TEST_CASE_GENERATOR_REGISTRY is run to exhaustion; each test case is serialised, validated, decoded and judged by its family's oracle; non-trivial = distinct configurations all of whose test cases passed",
        "exhaustive": ctx.tier == "thorough" and os.environ.get("VERIF_C05_FULL") == "1",
        "bounds": {"full_product": n_configs(), "configurations_run": len(idx), "selection": ("full product" if os.environ.get("VERIF_C05_FULL") == "1" else "every second configuration of the product (offset = seed mod 2) + the quick core; VERIF_C05_FULL=1 runs the full product") if ctx.tier == "thorough" else "core (every 176th) + stratum (index = seed mod 141, step 141)", "domains": {k: len(v) for k, v in DOMAINS}, "extra_boundary_configurations": len(EXTRAS), "two_configuration_histories": "%d ordered pairs of %d configurations that differ only in video parameters outside the picture / coding geometry, all test cases generated for the first and then the second in one process" % (len(history_pairs()), len(HISTORY_CONFIGS))},
    }
    return total, cov


def replay_case(case):
    if "history" in case:
        return check_history(*case["history"])[0]
    i = case["index"]
    return check_config(config_at(i) if i >= 0 else {"extra": EXTRAS[-i - 1]})[0]
