"""C21 -- the serialiser/deserialiser framework round-trips arbitrary description programs.

Every program of the grammar in models/serdesmodel.py up to a node bound, with
every value assignment, is run on the real Serialiser and Deserialiser and
compared statement by statement / bit by bit with the independent interpreter
(DESIGN.md section 6, C21).  Oracle parts:

 (i)   serialise the complete description -> exactly the predicted bits; then
       deserialise them with the same program -> the same tree (types included);
       verify_complete passes on both;
 (ii)  one extra unused value anywhere -> UnusedTargetError; one needed value
       removed -> KeyError / ListTargetExhaustedError, or, with a default_values
       entry for the *current* context type, the default is what is written;
 (iii) re-using a non-list target -> ReusedTargetError at exactly that statement,
       everything read/given before is intact;
 (iv)  after every statement the dict at serdes.path() reachable from
       serdes.context *is* serdes.cur_context and has the type last set.
"""
import gc
import itertools
import io as _io

import mc
from mc import pool
from mc.tally import Tally

from models import serdesmodel as M

PROPERTY = "C21"
LEVEL = "model_checking"
ASSUMPTIONS = [
    "program grammar and value alphabets as in models/serdesmodel.py: 7 primitive kinds x targets {x,y}, declare_list, subcontext, bounded_block(len 0/2/5), byte_align, computed_value, set_context_type(dict / two fixeddict types); container nesting <= 2; bounded blocks are not nested (the bit I/O layer forbids it)",
    "runs whose predicted failure is followed by never-executed statements are not executed: they are identical by construction to the run of the smaller program without those statements, which is in the enumerated space",
    "removal of a needed value is tried for non-list targets and for the last element of a list (removing an inner element only shifts values)",
    "the description handed to the Serialiser is built from plain dicts (plus a typed variant); bit arrays and byte strings have their full length (short values are zero-padded by the writer by design and would not compare equal)",
    "the bit-level encodings themselves are the subject of C20; here they matter only as far as the framework passes values through",
]

_TYPES = None


def get_types():
    """(dict, FD1, FD2): the context types of the grammar."""
    global _TYPES
    if _TYPES is None:
        from vc2_conformance.fixeddict import fixeddict

        a = fixeddict("C21TypeA", "x", "y", "z", module=__name__)
        b = fixeddict("C21TypeB", "x", "y", "z", module=__name__)
        _TYPES = (dict, a, b)
    return _TYPES


def _bitarray():
    from bitarray import bitarray

    return bitarray


# -- conversion between model trees and real objects -------------------------
def to_real(node, typed):
    if isinstance(node, M.DictNode):
        T = get_types()[node.type] if typed else dict
        out = T()
        for k, v in node.items.items():
            out[k] = to_real(v, typed)
        return out
    if isinstance(node, list):
        return [to_real(v, typed) for v in node]
    return leaf_to_real(node)


def leaf_to_real(v):
    if isinstance(v, tuple) and v and v[0] == "bits":
        return _bitarray()(v[1])
    return v


def canon_real(obj):
    """Same canonical form as models.serdesmodel.canon, from real objects."""
    types = get_types()
    if isinstance(obj, dict):
        ti = None
        for i, T in enumerate(types):
            if type(obj) is T:
                ti = i
        if ti is None:
            ti = "?" + type(obj).__name__
        return ("D", ti, tuple(sorted((k, canon_real(v)) for k, v in obj.items())))
    if isinstance(obj, list):
        return ("L", tuple(canon_real(v) for v in obj))
    if isinstance(obj, bool):
        return ("bool", obj)
    if isinstance(obj, int):
        return ("int", obj)
    if isinstance(obj, (bytes, bytearray)):
        return ("bytes", bytes(obj).hex())
    if isinstance(obj, _bitarray()):
        return ("bits", obj.to01())
    return ("?", repr(obj))


def norm_program(p):
    """JSON lists -> tuples."""
    out = []
    for s in p:
        s = list(s)
        if s[0] == "sub":
            out.append(("sub", s[1], norm_program(s[2])))
        elif s[0] == "block":
            out.append(("block", s[1], s[2], norm_program(s[3])))
        else:
            out.append(tuple(s))
    return tuple(out)


def count_nodes(p):
    n = 0
    for s in p:
        n += 1
        if s[0] == "sub":
            n += count_nodes(s[2])
        elif s[0] == "block":
            n += count_nodes(s[3])
    return n


# -- executing a program on a real SerDes --------------------------------------
def exec_program(serdes, program, pos, hook):
    counter = [0]

    def run(stmts):
        for s in stmts:
            idx = counter[0]
            counter[0] += 1
            pos[0] = (idx, "enter")
            k = s[0]
            if k == "prim":
                kind, t = s[1], s[2]
                if kind == "bool":
                    serdes.bool(t)
                elif kind == "nbits3":
                    serdes.nbits(t, 3)
                elif kind == "uintlit1":
                    serdes.uint_lit(t, 1)
                elif kind == "uint":
                    serdes.uint(t)
                elif kind == "sint":
                    serdes.sint(t)
                elif kind == "bytes1":
                    serdes.bytes(t, 1)
                elif kind == "bitarray2":
                    serdes.bitarray(t, 2)
                else:
                    raise ValueError(kind)
                hook(idx, "done")
            elif k == "declare":
                serdes.declare_list(s[1])
                hook(idx, "done")
            elif k == "computed":
                serdes.computed_value(s[1], M.COMPUTED)
                hook(idx, "done")
            elif k == "settype":
                serdes.set_context_type(get_types()[s[1]])
                hook(idx, "done")
            elif k == "align":
                serdes.byte_align(s[1])
                hook(idx, "done")
            elif k == "sub":
                serdes.subcontext_enter(s[1])
                hook(idx, "enter")
                run(s[2])
                pos[0] = (idx, "exit")
                serdes.subcontext_leave()
                hook(idx, "exit")
            elif k == "block":
                serdes.bounded_block_begin(s[2])
                hook(idx, "enter")
                run(s[3])
                pos[0] = (idx, "exit")
                serdes.bounded_block_end(s[1])
                hook(idx, "exit")
            else:
                raise ValueError(s)

    run(program)


class Observed(object):
    def __init__(self):
        self.exc = None
        self.pos = None
        self.verify_exc = None
        self.data = None
        self.context = None
        self.step_problems = []
        self.steps = 0
        self.bitpos = None


def _step_checker(serdes, res, obs, direction, on_state=None):
    """Hook called after every step: part (iv) + agreement with the model trace."""
    types = get_types()

    def hook(idx, phase):
        i = obs.steps
        obs.steps += 1
        # (iv) the tree reachable from .context holds cur_context at .path()
        node = serdes.context
        try:
            path = serdes.path()
            for p in path:
                node = node[p]
        except Exception as e:  # noqa
            obs.step_problems.append("%s step %d (%d,%s): cannot walk path: %s: %s" % (direction, i, idx, phase, type(e).__name__, e))
            return
        if node is not serdes.cur_context:
            obs.step_problems.append(
                "%s step %d (%d,%s): dict at path %r reachable from .context is not .cur_context" % (direction, i, idx, phase, path)
            )
        if res is not None and i < len(res.trace):
            m_idx, m_phase, m_path, m_type = res.trace[i]
            if (m_idx, m_phase) != (idx, phase):
                obs.step_problems.append("%s step %d is (%d,%s), model expects (%d,%s)" % (direction, i, idx, phase, m_idx, m_phase))
            if tuple(path) != tuple(m_path):
                obs.step_problems.append("%s step %d (%d,%s): path %r, model %r" % (direction, i, idx, phase, path, list(m_path)))
            if type(serdes.cur_context) is not types[m_type]:
                obs.step_problems.append(
                    "%s step %d (%d,%s): current context has type %s, model %s" % (direction, i, idx, phase, type(serdes.cur_context).__name__, types[m_type].__name__)
                )
        elif res is not None:
            obs.step_problems.append("%s executed step %d (%d,%s) beyond the model's trace" % (direction, i, idx, phase))
        if on_state is not None:
            on_state(i, idx, phase, path)

    return hook


def run_serialiser(program, desc, res, defaults=None):
    from vc2_conformance.bitstream.io import BitstreamWriter
    from vc2_conformance.bitstream.serdes import Serialiser

    obs = Observed()
    f = _io.BytesIO()
    w = BitstreamWriter(f)
    if defaults is None:
        ser = Serialiser(w, desc)
    else:
        ser = Serialiser(w, desc, default_values=defaults)
    pos = [(-1, "enter")]
    hook = _step_checker(ser, res, obs, "serialiser")
    try:
        exec_program(ser, program, pos, hook)
    except Exception as e:  # noqa
        obs.exc = e
        obs.pos = pos[0]
    if obs.exc is None:
        try:
            ser.verify_complete()
        except Exception as e:  # noqa
            obs.verify_exc = e
    try:
        w.flush()
        obs.data = f.getvalue()
    except Exception as e:  # noqa
        obs.step_problems.append("flush failed: %r" % (e,))
    obs.context = ser.context
    return obs


def run_deserialiser(program, data, res, on_state=None):
    from vc2_conformance.bitstream.io import BitstreamReader
    from vc2_conformance.bitstream.serdes import Deserialiser

    obs = Observed()
    r = BitstreamReader(_io.BytesIO(data))
    des = Deserialiser(r)
    pos = [(-1, "enter")]
    state_cb = None
    if on_state is not None:

        def state_cb(i, idx, phase, path):
            on_state(i, des, r, path)

    hook = _step_checker(des, res, obs, "deserialiser", state_cb)
    try:
        exec_program(des, program, pos, hook)
    except Exception as e:  # noqa
        obs.exc = e
        obs.pos = pos[0]
    if obs.exc is None:
        try:
            des.verify_complete()
        except Exception as e:  # noqa
            obs.verify_exc = e
    obs.context = des.context
    by, bi = r.tell()
    obs.bitpos = by * 8 + (7 - bi)
    return obs


def scribble(obj):
    """The caller owns a deserialised description: edit every mutable value in place (as a
    caller may).  Nothing of it may be shared with what later runs return."""
    if isinstance(obj, dict):
        for v in obj.values():
            scribble(v)
    elif isinstance(obj, list):
        for v in obj:
            scribble(v)
        obj.append("verif-scribble")
    elif isinstance(obj, _bitarray()):
        obj.extend([1, 1, 1, 1])


def _exc_name(e):
    return "no exception" if e is None else "%s(%s)" % (type(e).__name__, str(e)[:80])


def _expect_error(direction, obs, res, problems):
    """Compare an observed failure with the model's prediction."""
    from vc2_conformance.bitstream import exceptions as bx

    kind, idx, phase = res.error
    if obs.exc is None:
        problems.append("%s: no exception, model predicts %s at statement %d (%s)" % (direction, kind, idx, phase))
        return
    if kind == "reused":
        good = type(obs.exc) is bx.ReusedTargetError
    else:
        good = type(obs.exc) is ValueError
    if not good:
        problems.append("%s raised %s, model predicts %s at statement %d" % (direction, _exc_name(obs.exc), kind, idx))
    elif obs.pos != (idx, phase):
        problems.append("%s raised %s at %r, model predicts statement %d (%s)" % (direction, _exc_name(obs.exc), obs.pos, idx, phase))


def _walk_containers(node, path=()):
    """Yield (path, node) for every dict and list in a model tree."""
    yield path, node
    if isinstance(node, M.DictNode):
        for k, v in node.items.items():
            if isinstance(v, (M.DictNode, list)):
                for x in _walk_containers(v, path + (k,)):
                    yield x
    elif isinstance(node, list):
        for i, v in enumerate(node):
            if isinstance(v, (M.DictNode, list)):
                for x in _walk_containers(v, path + (i,)):
                    yield x


def _nav(obj, path):
    for p in path:
        obj = obj[p]
    return obj


def run_case(program, choices, t=None, trace=False, faults=True):
    """Run one (program, value assignment) through everything.  Returns problems."""
    from vc2_conformance.bitstream import exceptions as bx

    res = M.interpret(program, choices, snapshots=trace)
    problems = []
    want_tree = M.canon(res.tree)
    klass = res.error[0] if res.error else "ok"
    if t is not None:
        t.outcome("run", klass)

    # ---- (i)/(iii) Serialiser on the complete (plain dict) description ----
    desc = to_real(res.tree, typed=False)
    so = run_serialiser(program, desc, res)
    if res.error is None:
        if so.exc is not None:
            problems.append("serialiser raised %s at %r on a complete description" % (_exc_name(so.exc), so.pos))
        elif so.verify_exc is not None:
            problems.append("serialiser verify_complete raised %s" % _exc_name(so.verify_exc))
    else:
        _expect_error("serialiser", so, res, problems)
    problems.extend(so.step_problems)
    if so.data != res.data and not problems:
        problems.append("serialiser wrote %s, model predicts %s" % (so.data.hex() if so.data is not None else None, res.data.hex()))
    got_tree = canon_real(so.context)
    if got_tree != want_tree and not problems:
        problems.append("serialiser context is %r, model %r" % (got_tree, want_tree))
    if t is not None:
        t.count("serialiser_runs")
        t.count("transitions", so.steps)

    # ---- (i)/(iii) Deserialiser on the predicted bits ----
    if klass in ("ok", "reused"):
        data = res.data if klass == "ok" else res.data + b"\xff\xff"
        on_state = None
        if trace:

            def on_state(i, des, reader, path):
                c = canon_real(des.context)
                if res.snapshots is not None and i < len(res.snapshots) and c != res.snapshots[i]:
                    problems.append("deserialiser after step %d holds %r, model %r" % (i, c, res.snapshots[i]))
                if t is not None:
                    key = (
                        c,
                        tuple(path),
                        tuple(tuple(sorted(d.items())) for d in des._context_indices_stack + [des._cur_context_indices]),
                        reader.tell(),
                        reader.bits_remaining,
                    )
                    t.distinct("states", key)

        do = run_deserialiser(program, data, res, on_state)
        if klass == "ok":
            if do.exc is not None:
                problems.append("deserialiser raised %s at %r" % (_exc_name(do.exc), do.pos))
            elif do.verify_exc is not None:
                problems.append("deserialiser verify_complete raised %s" % _exc_name(do.verify_exc))
            elif do.bitpos != len(res.bits):
                problems.append("deserialiser consumed %d bits, %d were written" % (do.bitpos, len(res.bits)))
        else:
            _expect_error("deserialiser", do, res, problems)
        problems.extend(do.step_problems)
        got = canon_real(do.context)
        if got != want_tree and not problems:
            problems.append("deserialiser produced %r, expected %r" % (got, want_tree))
        scribble(do.context)
        if t is not None:
            t.count("deserialiser_runs")
            t.count("transitions", do.steps)

    if problems or klass != "ok" or not faults:
        return problems

    # ---- variants of the description (complete ones) ----
    if any(n.type != 0 for _, n in _walk_containers(res.tree) if isinstance(n, M.DictNode)):
        # (no per-step type comparison: the description starts out typed)
        v = run_serialiser(program, to_real(res.tree, typed=True), None)
        _expect_same(v, res, want_tree, "typed description", problems)
        if t is not None:
            t.count("variant_typed")
    if res.computed:
        d = to_real(res.tree, typed=False)
        # computed values removed / wrong: they are overwritten anyway.
        # (delete in reverse so that nothing shifts)
        for cpath, key, is_list in reversed(res.computed):
            c = _nav(d, cpath)
            if is_list:
                c[key] = 99
            else:
                del c[key]
        v = run_serialiser(program, d, res)
        _expect_same(v, res, want_tree, "description without computed values", problems)
        if t is not None:
            t.count("variant_computed")

    # ---- (ii) one extra unused value anywhere ----
    for path, node in _walk_containers(res.tree):
        d = to_real(res.tree, typed=False)
        c = _nav(d, path)
        if isinstance(node, M.DictNode):
            c["z"] = 0
        else:
            c.append(0)
        v = run_serialiser(program, d, None)
        e = v.exc or v.verify_exc
        if type(e) is not bx.UnusedTargetError:
            problems.append("extra unused value at %r: serialiser gave %s, expected UnusedTargetError" % (list(path) + (["z"] if isinstance(node, M.DictNode) else ["<appended>"]), _exc_name(e)))
        if t is not None:
            t.count("variant_unused")

    # ---- (ii) one needed value removed, without / with a default ----
    types = get_types()
    for site in res.sites:
        container_m = _nav_model(res.tree, site["container"])
        if site["is_list"] and site["key"] != len(container_m) - 1:
            continue
        d = to_real(res.tree, typed=False)
        c = _nav(d, site["container"])
        del c[site["key"]]
        v = run_serialiser(program, d, None)
        e = v.exc
        if site["is_list"]:
            good = type(e) is bx.ListTargetExhaustedError
        else:
            good = isinstance(e, KeyError)
        if not good or v.pos is None or v.pos[0] != site["stmt"]:
            problems.append(
                "needed value %r at %r removed: serialiser gave %s at %r, expected %s at statement %d"
                % (site["target"], list(site["container"]), _exc_name(e), v.pos, "ListTargetExhaustedError" if site["is_list"] else "KeyError", site["stmt"])
            )
        # with defaults: the entry for the current context type is used, nothing else
        alphabet = site["alphabet"]
        dflt = alphabet[(site["choice"] + 1) % len(alphabet)]
        other = alphabet[site["choice"]]
        defaults = {}
        for ti, T in enumerate(types):
            defaults[T] = {site["target"]: leaf_to_real(dflt if ti == site["ctx_type"] else other)}
        try:
            res2 = M.interpret(program, res.choices, override={site["site"]: dflt})
        except IndexError:
            res2 = None
        if res2 is None or [x["value"] for x in res2.sites] != [x["value"] for x in res.sites[: len(res2.sites)]]:
            # the default has another encoded length and changes the size of a
            # later padding field: the description no longer fits; not judged
            if t is not None:
                t.count("variant_missing_default_skipped")
                t.count("variant_missing", 1)
            continue
        d = to_real(res.tree, typed=False)
        c = _nav(d, site["container"])
        del c[site["key"]]
        v = run_serialiser(program, d, None, defaults=defaults)
        if res2.error is None and not site["is_list"]:
            # the same description with one extra, never-used value in the same dictionary:
            # the default must not "pay for" the unused value
            d3 = to_real(res.tree, typed=False)
            c3 = _nav(d3, site["container"])
            del c3[site["key"]]
            if isinstance(c3, dict) and "z" not in c3:
                c3["z"] = 0
                v3 = run_serialiser(program, d3, None, defaults=defaults)
                e3 = v3.exc or v3.verify_exc
                if type(e3) is not bx.UnusedTargetError:
                    problems.append("needed value %r supplied by a default and an extra unused value in the same dictionary: serialiser gave %s, expected UnusedTargetError" % (site["target"], _exc_name(e3)))
                if t is not None:
                    t.count("variant_default_plus_unused")
        if res2.error is None:
            e = v.exc or v.verify_exc
            if e is not None:
                problems.append("needed value %r removed, default given: serialiser raised %s" % (site["target"], _exc_name(e)))
            elif v.data != res2.data:
                problems.append(
                    "needed value %r removed, default %r for the current context type: serialiser wrote %s, expected %s"
                    % (site["target"], dflt, v.data.hex(), res2.data.hex())
                )
        else:
            if type(v.exc) is not ValueError or v.pos != (res2.error[1], res2.error[2]):
                problems.append(
                    "needed value %r removed, default %r overflows a bounded block with a 0: serialiser gave %s at %r, expected ValueError at %r"
                    % (site["target"], dflt, _exc_name(v.exc), v.pos, res2.error[1:])
                )
        if t is not None:
            t.count("variant_missing", 2)

    # ---- (ii) a list target given as a non-list (falsy ones included) ----
    NONLISTS = [0, False, None, b"", "", {}, (), _bitarray()(), 7, "ab"]
    for path, node in _walk_containers(res.tree):
        if isinstance(node, M.DictNode) or not path:
            continue
        for bad in NONLISTS:
            d = to_real(res.tree, typed=False)
            parent = _nav(d, path[:-1])
            parent[path[-1]] = bad
            v = run_serialiser(program, d, None)
            if type(v.exc) is not bx.ListTargetContainsNonListError:
                problems.append("list target at %r given as %r: serialiser gave %s, expected ListTargetContainsNonListError" % (list(path), bad, _exc_name(v.exc or v.verify_exc)))
            if t is not None:
                t.count("variant_nonlist")

    # ---- (ii) two needed values of one dictionary removed, defaults per context type ----
    removable = []
    for site in res.sites:
        container_m = _nav_model(res.tree, site["container"])
        if site["is_list"] and site["key"] != len(container_m) - 1:
            continue
        removable.append(site)
    for a, b in itertools.combinations(removable, 2):
        if a["is_list"] and b["is_list"] and a["container"] == b["container"]:
            continue  # two elements of the same list
        ca = a["container"][:-1] if a["is_list"] else a["container"]
        cb = b["container"][:-1] if b["is_list"] else b["container"]
        if ca != cb or a["target"] == b["target"]:
            continue
        defaults = {T: {} for T in types}
        over = {}
        for site in (a, b):
            alphabet = site["alphabet"]
            dflt = alphabet[(site["choice"] + 1) % len(alphabet)]
            other = alphabet[site["choice"]]
            over[site["site"]] = dflt
            for ti, T in enumerate(types):
                defaults[T][site["target"]] = leaf_to_real(dflt if ti == site["ctx_type"] else other)
        try:
            res2 = M.interpret(program, res.choices, override=over)
        except IndexError:
            res2 = None
        if res2 is None or res2.error is not None or [x["value"] for x in res2.sites] != [x["value"] for x in res.sites[: len(res2.sites)]]:
            if t is not None:
                t.count("variant_missing_pair_skipped")
            continue
        d = to_real(res.tree, typed=False)
        for site in (b, a):
            c = _nav(d, site["container"])
            del c[site["key"]]
        v = run_serialiser(program, d, None, defaults=defaults)
        e = v.exc or v.verify_exc
        if e is not None:
            problems.append("needed values %r and %r removed, defaults given: serialiser raised %s" % (a["target"], b["target"], _exc_name(e)))
        elif v.data != res2.data:
            problems.append(
                "needed values %r (context type %d) and %r (context type %d) removed, defaults per context type: serialiser wrote %s, expected %s"
                % (a["target"], a["ctx_type"], b["target"], b["ctx_type"], v.data.hex(), res2.data.hex())
            )
        if t is not None:
            t.count("variant_missing_pair")
            if a["ctx_type"] != b["ctx_type"]:
                t.count("variant_missing_pair_across_type_change")
    return problems


def _nav_model(node, path):
    for p in path:
        node = node.items[p] if isinstance(node, M.DictNode) else node[p]
    return node


def _expect_same(v, res, want_tree, what, problems):
    problems.extend(v.step_problems)
    e = v.exc or v.verify_exc
    if e is not None:
        problems.append("%s: serialiser raised %s" % (what, _exc_name(e)))
    elif v.data != res.data:
        problems.append("%s: serialiser wrote %s, expected %s" % (what, v.data.hex(), res.data.hex()))
    elif canon_real(v.context) != want_tree:
        problems.append("%s: serialiser context is %r, expected %r" % (what, canon_real(v.context), want_tree))


# -- exploration -----------------------------------------------------------
GRAMMARS = {
    "full": dict(),
    # small alphabet used for the largest program size (thorough tier)
    "small": dict(kinds=["bool", "uint"], block_lengths=[2], types=[0, 1]),
}
_GRAMMAR_CACHE = {}


def grammar(name):
    if name not in _GRAMMAR_CACHE:
        _GRAMMAR_CACHE[name] = M.Grammar(**GRAMMARS[name])
    return _GRAMMAR_CACHE[name]


def _shard(arg):
    """Programs whose global enumeration index i has i % stride == offset
    (and, for a stratified size, (i // stride) % nstrata == stratum)."""
    gname, n, offset, stride, stratum, nstrata, trace, faults = arg
    g = grammar(gname)
    t = Tally()
    base = 0
    for fsz in range(1, n + 1):
        # programs = (first statement of fsz nodes) + (forest of n - fsz nodes);
        # global index = base + k * len(rests) + j
        firsts = g.stmts(fsz, g.max_depth, False)
        rests = g.forests(n - fsz, g.max_depth, False)
        nr = len(rests)
        size = len(firsts) * nr
        start = base + ((offset - base) % stride)
        for i in range(start, base + size, stride):
            t.count("programs_in_shard")
            if nstrata > 1 and (i // stride) % nstrata != stratum:
                continue
            k, j = divmod(i - base, nr)
            program = (firsts[k],) + rests[j]
            t.count("programs")
            t.count("programs_%s_n%d" % (gname, n))
            for res in M.all_runs(program):
                if res.error is not None and res.n_started < n:
                    t.count("runs_pruned_equivalent")
                    continue
                t.count("runs")
                problems = run_case(program, res.choices, t, trace=trace, faults=faults)
                if problems:
                    t.violation(problems[0], {"program": program, "choices": list(res.choices)})
        base += size
    return t


def sibling_family():
    """Lists of 2-3 typed sub-descriptions whose entries may be equal to each other or empty
    (programs far above the node bound of the grammar enumeration)."""
    bodies = [
        (("settype", 1),),
        (("settype", 1), ("prim", "bool", "y")),
        (("prim", "bool", "y"), ("settype", 1)),
        (("settype", 2), ("prim", "uint", "y")),
        (("declare", "y"), ("settype", 1)),
        (("settype", 1), ("declare", "y"), ("prim", "bool", "y")),
        (("prim", "bool", "y"),),
    ]
    progs = []
    for k in (2, 3):
        for combo in itertools.product(range(len(bodies)), repeat=k):
            progs.append((("declare", "x"),) + tuple(("sub", "x", bodies[b]) for b in combo))
            if k == 2:
                progs.append((("settype", 2), ("declare", "x")) + tuple(("sub", "x", bodies[b]) for b in combo))
    return progs


COMPUTED_VALUES = [[], [1], [1, 2], [[1], [2, 3]], (1, 2), {}, {"a": 1}, "text", None, 0, True, b"", b"ab"]


def computed_value_family(t):
    """computed_value() may store any object; a list stored in a non-list target is still a
    single used value (in the root, in a sub-description, next to a declared list)."""
    from vc2_conformance.bitstream.io import BitstreamReader, BitstreamWriter
    from vc2_conformance.bitstream.serdes import Deserialiser, Serialiser

    def program(serdes, value, where):
        if where == "root":
            serdes.computed_value("c", value)
            serdes.nbits("x", 3)
        elif where == "sub":
            serdes.subcontext_enter("s")
            serdes.nbits("x", 3)
            serdes.computed_value("c", value)
            serdes.subcontext_leave()
        else:  # next to a declared list target
            serdes.declare_list("x")
            serdes.nbits("x", 3)
            serdes.computed_value("c", value)
            serdes.nbits("x", 3)

    for value in COMPUTED_VALUES:
        for where in ("root", "sub", "list"):
            t.count("computed_value_cases")
            desc = {"root": {"x": 5}, "sub": {"s": {"x": 5}}, "list": {"x": [5, 2]}}[where]
            want = copy_desc(desc)
            (want["s"] if where == "sub" else want)["c"] = value
            case = {"computed_value": [repr(value), where]}
            try:
                f = _io.BytesIO()
                w = BitstreamWriter(f)
                with Serialiser(w, copy_desc(desc)) as ser:
                    program(ser, value, where)
                w.flush()
                if ser.context != want:
                    t.violation("computed_value(%r) %s: serialiser context %r" % (value, where, ser.context), case)
                    continue
                r = BitstreamReader(_io.BytesIO(f.getvalue()))
                with Deserialiser(r) as des:
                    program(des, value, where)
                if des.context != want:
                    t.violation("computed_value(%r) %s: deserialised %r, expected %r" % (value, where, des.context, want), case)
            except Exception as e:  # noqa
                t.violation("computed_value(%r) %s: a complete description raised %s" % (value, where, _exc_name(e)), case)


def copy_desc(d):
    import copy as _copy

    return _copy.deepcopy(d)


def _shard_siblings(arg):
    _, w, n = arg
    t = Tally()
    if w == 0:
        computed_value_family(t)
    for program in sibling_family()[w::n]:
        program = norm_program(program)
        t.count("sibling_programs")
        for res in M.all_runs(program):
            t.count("runs")
            problems = run_case(program, res.choices, t, trace=False, faults=True)
            if problems:
                t.violation(problems[0], {"program": program, "choices": list(res.choices)})
    return t


def run(ctx):
    total = Tally()
    g = grammar("full")
    # (grammar, n, strata, trace states?, fault variants?)
    if ctx.quick:
        plan = [("full", 1, 1, True, True), ("full", 2, 1, True, True), ("full", 3, 1, True, True), ("full", 4, 16, False, True)]
    else:
        plan = [
            ("full", 1, 1, True, True),
            ("full", 2, 1, True, True),
            ("full", 3, 1, True, True),
            ("full", 4, 1, False, True),
            ("small", 5, 1, False, True),
        ]
    shards = []
    expected_programs = 0
    expected_enumerated = 0
    bounds_sizes = {}
    for gname, n, nstrata, trace, faults in plan:
        gg = grammar(gname)
        cnt = gg.count(n)
        expected_enumerated += cnt
        bounds_sizes["%s_n%d" % (gname, n)] = cnt
        stratum = ctx.seed % nstrata
        nsh = 1 if n == 1 else (16 if n == 2 else (64 if n == 3 else 128))
        nsh = min(nsh, cnt)
        for w in range(nsh):
            shards.append((gname, n, w, nsh, stratum, nstrata, trace, faults))
            nq = (cnt - w + nsh - 1) // nsh  # indices i = q * nsh + w < cnt
            expected_programs += len(range(stratum, nq, nstrata))
    k = ctx.seed % len(shards)
    # big shards first keeps the pool busy; seed only rotates within equal-size groups
    shards = shards[k:] + shards[:k]
    shards.sort(key=lambda s: -s[1])
    # the memoised grammar is large: keep the collector (and copy-on-write) away
    # from it in the forked workers
    gc.collect()
    gc.freeze()
    try:
        res = pool.map_shards(_shard, shards)
        res2 = pool.map_shards(_shard_siblings, [("sib", w, 32) for w in range(32)])
    finally:
        gc.unfreeze()
    total.merge(res)
    total.merge(res2)
    if total.n["sibling_programs"] != len(sibling_family()):
        total.error("ran %d of %d sibling-family programs" % (total.n["sibling_programs"], len(sibling_family())))

    exhaustive = True
    if total.n["programs_in_shard"] != expected_enumerated and not total.violation_count:
        total.error("enumerated %d programs, expected %d" % (total.n["programs_in_shard"], expected_enumerated))
        exhaustive = False
    if total.n["programs"] != expected_programs and not total.violation_count:
        total.error("ran %d programs, expected %d" % (total.n["programs"], expected_programs))
        exhaustive = False
    outcomes = total.hist["run"]
    for need in ("ok", "reused", "zero_past_end"):
        if outcomes.get(need, 0) == 0 and not total.violation_count:
            total.error("vacuous: no run with outcome %r" % need)
    for need in ("variant_unused", "variant_missing", "variant_typed", "variant_computed"):
        if total.n[need] == 0 and not total.violation_count:
            total.error("vacuous: %s never exercised" % need)

    total.sample("program", {"program": (("declare", "x"), ("sub", "x", (("settype", 1), ("prim", "uint", "y"))), ("sub", "x", (("settype", 2),))), "choices": [1]})
    total.sample("program", {"program": (("block", "y", 2, (("prim", "sint", "x"),)), ("align", "x")), "choices": [1, 0, 1]})
    total.sample("program", {"program": (("prim", "bool", "x"), ("computed", "x")), "choices": [1]})

    bounds = {
        "program_nodes_max": max(p[1] for p in plan),
        "nesting_max": 2,
        "programs_by_size": bounds_sizes,
        "programs_run": expected_programs,
        "grammars": {"full": "all kinds / block lengths / context types", "small": "kinds [bool, uint], block length 2, context types dict + one fixeddict"},
        "targets": list(M.TARGETS),
        "kinds": list(M.KINDS),
        "block_lengths": list(M.BLOCK_LENGTHS),
        "context_types": 3,
        "values": "every assignment from the per-kind alphabets (2-3 values) and {zeros, ones} for padding",
        "fault_variants": "every single extra value (each dict, each list), every single removable needed value (without and with a default) for every fault-free run",
    }
    for gname, n, nstrata, trace, faults in plan:
        if nstrata > 1:
            bounds["size_%d" % n] = "stratum %d of %d (programs whose enumeration index is congruent), chosen by VERIF_SEED; all strata in the thorough tier" % (ctx.seed % nstrata, nstrata)
            exhaustive_note = "sizes <= %d complete; size %d: one stratum, completely" % (n - 1, n)
            bounds["note"] = exhaustive_note
    cov = {
        "states": total.ndistinct("states"),
        "transitions": total.n["transitions"],
        "traces_validated_against_impl": total.n["serialiser_runs"] + total.n["deserialiser_runs"] + total.n["variant_unused"] + total.n["variant_missing"] + total.n["variant_typed"] + total.n["variant_computed"],
        "exhaustive": exhaustive and not total.errors,
        "bounds": bounds,
        "rule": "states = distinct (deserialiser context tree, path, target-index stacks, reader position, bits remaining) after each statement for programs of <= 3 nodes; transitions = statements executed on real Serialiser/Deserialiser objects; every run compared with models/serdesmodel.py",
    }
    return total, cov


def replay_case(case):
    if "computed_value" in case:
        t = Tally()
        computed_value_family(t)
        return [v["what"] for v in t.violations]
    program = norm_program(case["program"])
    choices = [int(c) for c in case["choices"]]
    return run_case(program, choices, None, trace=True, faults=True)
