"""C15 -- every generated sequence header encodes exactly the requested video format.

Every base video format x one-field perturbations (pairs in thorough) x coding
modes x admitting levels; *all* headers of iter_sequence_headers
(DESIGN.md section 6, C15).
"""
import io
import itertools

import mc  # noqa
from mc import pool, vc2run
from mc.tally import Tally
from props import encfeat

PROPERTY = "C15"
LEVEL = "exploration"
ASSUMPTIONS = [
    "headers are wrapped as 'sequence_header, end_of_sequence' streams (no pictures), so real HD/UHD formats and the real level tables are usable",
    "a configuration for which the encoder yields no header at a level is not a violation (the level may not admit it); every yielded header must be accepted and decode to exactly the configured parameters",
    "quick: one-field perturbations; thorough: all pairs of perturbed fields",
    "level *ordering patterns* are swapped for '.*' in-process (header-only streams cannot satisfy e.g. level 66's '(sequence_header picture)*'); the level value tables are the real ones",
]


def perturbations(vp):
    """[(field-group name, dict of changes)] single-group perturbations of a VideoParameters."""
    from vc2_data_tables import PRESET_FRAME_RATES, PRESET_PIXEL_ASPECT_RATIOS, PRESET_SIGNAL_RANGES, PRESET_COLOR_SPECS, PresetColorPrimaries, PresetColorMatrices, PresetTransferFunctions

    w, h = vp["frame_width"], vp["frame_height"]
    out = []
    for nw, nh in ((w + 16, h), (w, h + 16), (max(16, w - 16), h), (w // 2, h // 2), (16, 8)):
        out.append(("frame_size", dict(frame_width=nw, frame_height=nh, clean_width=nw, clean_height=nh, left_offset=0, top_offset=0)))
    for c in (0, 1, 2):
        out.append(("color_diff_format", dict(color_diff_format_index=c)))
    for s in (0, 1):
        out.append(("scan_format", dict(source_sampling=s)))
    out.append(("scan_format", dict(top_field_first=not vp["top_field_first"])))
    for i, fr in sorted(PRESET_FRAME_RATES.items()):
        out.append(("frame_rate", dict(frame_rate_numer=fr.numerator, frame_rate_denom=fr.denominator)))
    out.append(("frame_rate", dict(frame_rate_numer=7, frame_rate_denom=3)))
    # ratios that are not in lowest terms are different configured values and must be coded as given
    for i, fr in sorted(PRESET_FRAME_RATES.items()):
        out.append(("frame_rate", dict(frame_rate_numer=2 * fr.numerator, frame_rate_denom=2 * fr.denominator)))
    out.append(("frame_rate", dict(frame_rate_numer=3 * vp["frame_rate_numer"], frame_rate_denom=3 * vp["frame_rate_denom"])))
    for i, r in sorted(PRESET_PIXEL_ASPECT_RATIOS.items()):
        out.append(("pixel_aspect_ratio", dict(pixel_aspect_ratio_numer=2 * r.numerator, pixel_aspect_ratio_denom=2 * r.denominator)))
    out.append(("pixel_aspect_ratio", dict(pixel_aspect_ratio_numer=5 * vp["pixel_aspect_ratio_numer"], pixel_aspect_ratio_denom=5 * vp["pixel_aspect_ratio_denom"])))
    for i, r in sorted(PRESET_PIXEL_ASPECT_RATIOS.items()):
        out.append(("pixel_aspect_ratio", dict(pixel_aspect_ratio_numer=r.numerator, pixel_aspect_ratio_denom=r.denominator)))
    out.append(("pixel_aspect_ratio", dict(pixel_aspect_ratio_numer=5, pixel_aspect_ratio_denom=7)))
    out.append(("clean_area", dict(clean_width=w - 8, clean_height=h - 4, left_offset=4, top_offset=2)))
    out.append(("clean_area", dict(clean_width=w - 8, clean_height=h, left_offset=0, top_offset=0)))
    # the legal lower boundary: an empty clean area (zero width and / or height)
    out.append(("clean_area", dict(clean_width=0, clean_height=h, left_offset=0, top_offset=0)))
    out.append(("clean_area", dict(clean_width=w, clean_height=0, left_offset=0, top_offset=0)))
    out.append(("clean_area", dict(clean_width=0, clean_height=0, left_offset=w, top_offset=h)))
    for i, sr in sorted(PRESET_SIGNAL_RANGES.items()):
        out.append(("signal_range", dict(luma_offset=sr.luma_offset, luma_excursion=sr.luma_excursion, color_diff_offset=sr.color_diff_offset, color_diff_excursion=sr.color_diff_excursion)))
    out.append(("signal_range", dict(luma_offset=3, luma_excursion=500, color_diff_offset=200, color_diff_excursion=333)))
    for i, cs in sorted(PRESET_COLOR_SPECS.items()):
        out.append(("color_spec", dict(color_primaries_index=cs.color_primaries_index, color_matrix_index=cs.color_matrix_index, transfer_function_index=cs.transfer_function_index)))
    for p in PresetColorPrimaries:
        out.append(("color_spec", dict(color_primaries_index=p)))
    for m in PresetColorMatrices:
        out.append(("color_spec", dict(color_matrix_index=m)))
    for t in PresetTransferFunctions:
        out.append(("color_spec", dict(transfer_function_index=t)))
    res = []
    for g, ch in out:
        if any(vp[k] != v for k, v in ch.items()) and (g, ch) not in res:
            res.append((g, ch))
    return res


def levels_for(base):
    """Real levels whose table lists this base video format (level 0 always)."""
    from vc2_conformance.level_constraints import LEVEL_CONSTRAINTS

    out = [0]
    for row in LEVEL_CONSTRAINTS:
        if base in row["base_video_format"]:
            for lv in row["level"].iter_values():
                if int(lv) not in out:
                    out.append(int(lv))
    return out


def level_codec_kwargs(level, base, pcm):
    """Transform parameters a real level row demands (first allowed value of each)."""
    from vc2_conformance.level_constraints import LEVEL_CONSTRAINTS

    if level == 0:
        return [dict()]
    out = []
    for row in LEVEL_CONSTRAINTS:
        if level in row["level"] and base in row["base_video_format"] and pcm in row["picture_coding_mode"]:
            def first(key, default):
                vals = list(itertools.islice(row[key].iter_values(), 1)) if not _is_any(row[key]) else []
                return vals[0] if vals else default

            prof = first("profile", 3)
            kw = dict(profile=int(prof), wavelet_index=int(first("wavelet_index", 4)), dwt_depth=first("dwt_depth", 1), slices_x=first("slices_x", 2), slices_y=first("slices_y", 1))
            if int(prof) == 0:
                num, den = first("slice_bytes_numerator", 24), first("slice_bytes_denominator", 1)
                n = kw["slices_x"] * kw["slices_y"]
                kw["picture_bytes"] = (num * n) // den
            if kw not in out:
                out.append(kw)
    return out


def _is_any(vs):
    from vc2_conformance.constraint_table import AnyValue

    return isinstance(vs, AnyValue)


def all_configs(tier):
    from vc2_data_tables import BaseVideoFormats
    from vc2_conformance.pseudocode.video_parameters import set_source_defaults

    quick = tier != "thorough"
    out = []
    for b in BaseVideoFormats:
        vp0 = set_source_defaults(b)
        per = perturbations(vp0)
        variants = [()] + [(i,) for i in range(len(per))]
        if not quick:
            for i in range(len(per)):
                for j in range(i + 1, len(per)):
                    if per[i][0] != per[j][0]:
                        variants.append((i, j))
        for var in variants:
            for pcm in (0, 1):
                lvls = levels_for(b) if (quick and len(var) <= 1) or len(var) <= 1 else [0]
                for lv in lvls:
                    out.append((int(b), var, pcm, lv))
    return out


def check(cfg):
    """Returns (n_headers, problems)."""
    from vc2_data_tables import BaseVideoFormats, ParseCodes
    from vc2_conformance.pseudocode.video_parameters import set_source_defaults
    from vc2_conformance.encoder.sequence_header import iter_sequence_headers
    from vc2_conformance.bitstream import Stream, Sequence, DataUnit, ParseInfo, autofill_and_serialise_stream

    b, var, pcm, level = cfg
    vp = set_source_defaults(BaseVideoFormats(b))
    per = perturbations(vp)
    for i in var:
        vp.update(per[i][1])
    if vp["clean_width"] + vp["left_offset"] > vp["frame_width"] or vp["clean_height"] + vp["top_offset"] > vp["frame_height"] or vp["clean_width"] < 0 or vp["clean_height"] < 0:
        return 0, [], False
    sub_w = 2 if int(vp["color_diff_format_index"]) in (1, 2) else 1
    sub_h = (2 if int(vp["color_diff_format_index"]) == 2 else 1) * (2 if pcm == 1 else 1)
    if vp["frame_width"] % sub_w or vp["frame_height"] % sub_h:
        return 0, [], False  # not a regular format for this coding mode
    problems = []
    f7 = False
    n = 0
    for kw in level_codec_kwargs(level, BaseVideoFormats(b), pcm):
        try:
            cf = encfeat.make_cf("c15", level=level, picture_coding_mode=pcm, vp=vp, **kw)
        except Exception as e:  # noqa
            return 0, ["harness: %r" % (e,)], False
        want = dict(vp)
        try:
            headers = iter_sequence_headers(cf)
            for hdr in headers:
                n += 1
                stream = Stream(sequences=[Sequence(data_units=[DataUnit(parse_info=ParseInfo(parse_code=ParseCodes.sequence_header), sequence_header=hdr), DataUnit(parse_info=ParseInfo(parse_code=ParseCodes.end_of_sequence))])])
                f = io.BytesIO()
                autofill_and_serialise_stream(f, stream)
                v = vc2run.validate(f.getvalue(), limits=False, keep_pictures=False)
                if v.kind != "accept" and level in (64, 65) and type(v.exc).__name__ == "ValueNotAllowedInLevel" and getattr(v.exc, "key", None) == "major_version":
                    f7 = True  # known finding F7
                    break
                if v.kind != "accept":
                    problems.append("header #%d (base_video_format=%s) rejected at level %d: %s: %s" % (n, int(hdr["base_video_format"]), level, v.label, str(v.exc)[:140]))
                    break
                got = dict(v.state["video_parameters"])
                if got != want:
                    diff = {k: (got.get(k), want.get(k)) for k in want if got.get(k) != want.get(k)}
                    problems.append("header #%d (base_video_format=%s) decodes to different parameters: %r" % (n, int(hdr["base_video_format"]), diff))
                    break
                if int(v.state["picture_coding_mode"]) != pcm:
                    problems.append("header #%d: picture coding mode %r" % (n, v.state["picture_coding_mode"]))
                    break
        except Exception as e:  # noqa
            problems.append("iter_sequence_headers / serialisation raised %s: %s" % (type(e).__name__, e))
    if level == 0 and n == 0 and not problems:
        problems.append("no sequence header generated at the unconstrained level")
    return n, problems, f7


def check_compact(cfg, take):
    """The encoder's own use: make_sequence_header(cf) (take=1), or the first `take` headers of
    iter_sequence_headers with the generator then abandoned.  Returns problems."""
    from vc2_data_tables import BaseVideoFormats, ParseCodes
    from vc2_conformance.pseudocode.video_parameters import set_source_defaults
    from vc2_conformance.encoder.sequence_header import iter_sequence_headers, make_sequence_header
    from vc2_conformance.bitstream import Stream, Sequence, DataUnit, ParseInfo, autofill_and_serialise_stream

    b, var, pcm, level = cfg
    vp = set_source_defaults(BaseVideoFormats(b))
    per = perturbations(vp)
    for i in var:
        vp.update(per[i][1])
    cf = encfeat.make_cf("c15", level=level, picture_coding_mode=pcm, vp=vp)
    want = dict(vp)
    try:
        if take == 1:
            hdrs = [make_sequence_header(cf)]
        else:
            it = iter_sequence_headers(cf)
            hdrs = list(itertools.islice(it, take))
            del it
    except Exception as e:  # noqa
        return ["make_sequence_header raised %s: %s" % (type(e).__name__, e)]
    for k, hdr in enumerate(hdrs):
        stream = Stream(sequences=[Sequence(data_units=[DataUnit(parse_info=ParseInfo(parse_code=ParseCodes.sequence_header), sequence_header=hdr), DataUnit(parse_info=ParseInfo(parse_code=ParseCodes.end_of_sequence))])])
        f = io.BytesIO()
        autofill_and_serialise_stream(f, stream)
        v = vc2run.validate(f.getvalue(), limits=False, keep_pictures=False)
        if v.kind != "accept":
            return ["header #%d rejected: %s: %s" % (k, v.label, str(v.exc)[:140])]
        got = dict(v.state["video_parameters"])
        if got != want:
            diff = {k2: (got.get(k2), want.get(k2)) for k2 in want if got.get(k2) != want.get(k2)}
            return ["header #%d (base_video_format=%s) decodes to different parameters: %r" % (k, int(hdr["base_video_format"]), diff)]
    return []


def history_groups(tier):
    """[(base, [perturbation indices of one field group] + unperturbed)]: the pools from which
    ordered pairs of configurations are run one after the other in the same process."""
    from vc2_data_tables import BaseVideoFormats
    from vc2_conformance.pseudocode.video_parameters import set_source_defaults

    out = []
    for b in BaseVideoFormats:
        per = perturbations(set_source_defaults(b))
        groups = {}
        for i, (g, ch) in enumerate(per):
            groups.setdefault(g, []).append(i)
        for g in sorted(groups):
            if g in ("frame_rate", "pixel_aspect_ratio") and tier != "thorough":
                idx = groups[g][::4]
            else:
                idx = groups[g]
            out.append((int(b), g, [None] + idx))
    return out


def _shard_histories(arg):
    tier, w, n = arg
    t = Tally()
    for b, g, pool_ in history_groups(tier)[w::n]:
        for i in pool_:
            for j in pool_:
                if i == j:
                    continue
                hist = [(b, () if i is None else (i,), 0, 0), (b, () if j is None else (j,), 0, 0)]
                for take in (1, 2):
                    t.count("histories")
                    for step, cfg in enumerate(hist):
                        with vc2run.permissive_patterns():
                            pr = check_compact(cfg, take)
                        t.count("history_headers")
                        if pr:
                            t.violation("history %r (first %d header(s) taken, generator abandoned), step %d: %s" % (hist, take, step, pr[0]), {"history": hist, "take": take})
                            break
    return t


def _shard(arg):
    tier, w, n = arg
    t = Tally()
    for cfg in all_configs(tier)[w::n]:
        with vc2run.permissive_patterns():
            nh, problems, f7 = check(cfg)
        if f7:
            t.known_finding("F7", {"config": cfg})
        t.count("configs")
        t.count("headers", nh)
        t.outcome("headers_per_config", "0" if nh == 0 else ("1-9" if nh < 10 else ("10-99" if nh < 100 else "100+")))
        if problems:
            t.violation("%r: %s" % (cfg, problems[0]), {"config": cfg})
        elif nh:
            t.distinct("ok", cfg)
            t.sample("level%d" % cfg[3], {"config": cfg, "headers": nh})
    return t


def run(ctx):
    n = 64
    total = pool.map_shards(_shard, [(ctx.tier, w, n) for w in range(n)])
    total.merge(pool.map_shards(_shard_histories, [(ctx.tier, w, n) for w in range(n)]))
    cfgs = all_configs(ctx.tier)
    if total.n["configs"] != len(cfgs):
        total.error("evaluated %d of %d" % (total.n["configs"], len(cfgs)))
    if total.n["headers"] < 1000 and not total.violation_count:
        total.error("vacuous: %d headers" % total.n["headers"])
    cov = {
        "evaluations": total.n["headers"],
        "distinct_nontrivial": total.ndistinct("ok"),
        "rule": "for each (base video format, perturbation, coding mode, level) every header yielded by iter_sequence_headers is serialised as 'SH, EOS', validated under the real level tables and its decoded parameters compared; evaluations = headers; non-trivial = distinct configurations with at least one header, all passing",
        "exhaustive": True,
        "bounds": {
            "configs": len(cfgs),
            "perturbed_fields": 1 if ctx.quick else 2,
            "two_step_histories": "%d ordered pairs of configurations (same base format, same perturbed field group%s), each run twice in one process: via make_sequence_header, and via the first two headers of an abandoned iter_sequence_headers generator; every header validated and decoded" % (total.n["histories"] // 2, "; frame-rate and aspect-ratio groups subsampled 1 in 4" if ctx.quick else ""),
        },
    }
    return total, cov


def replay_case(case):
    if "history" in case:
        out = []
        for c in case["history"]:
            with vc2run.permissive_patterns():
                out += check_compact((c[0], tuple(c[1]), c[2], c[3]), case["take"])
        return out
    c = case["config"]
    with vc2run.permissive_patterns():
        return check((c[0], tuple(c[1]), c[2], c[3]))[1]
