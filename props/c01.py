"""C01 -- the validator accepts exactly the structurally conformant data-unit histories.

Explicit-state BFS over data-unit histories: the real parse_stream is the
transition function, models/streamref.py the oracle (DESIGN.md section 6, C01).
"""
import itertools
import traceback

import mc  # noqa
from mc import pool, vc2run
from mc.tally import Tally, stable_hash
from build import vc2build as B
from models import regexref as R
from models import streamref as S

PROPERTY = "C01"
LEVEL = "model_checking"
ASSUMPTIONS = [
    "one tiny 4:4:4 format, 2x2 slices per picture; level *value* tables swapped for a permissive table in-process (as tests/alternative_level_constraints.py does), level ordering patterns are the real ones",
    "headers, padding and auxiliary data between the fragments of one picture are accepted ('no interleaving' = no other picture)",
    "state merging uses a projection of the implementation's own State (all entries except I/O handles, decoded arrays and offsets only used in messages) paired with the reference model's state; merged only when both keys are equal",
    "known finding F5 is attributed only when the reference instantiated with the defective automaton predicts the verdict",
]
M32 = 1 << 32
HORIZON = 20.0
SX, SY = 2, 2
NS = SX * SY


class FragTracker(object):
    """Harness bookkeeping used only to *choose* the bytes of fragment events
    ("contiguous", "the rest", "same number"): mirrors a well-behaved sender."""

    def __init__(self):
        self.pn, self.received, self.active = 0, 0, False

    def start(self, pn):
        self.pn, self.received, self.active = pn, 0, True

    def resolve(self, variant):
        """-> (count, first_slice_for_data, x, y, pn)"""
        count, offs, num = variant
        first = self.received if self.active and self.received < NS else 0
        if count == "rest":
            count = NS - first
        x, y = first % SX, first // SX
        if offs == "bad":
            x = (x + 1) % SX
        elif offs == "alias":
            if y >= 1:
                x, y = x + SX, y - 1  # same raster index, wrong coordinates
            else:
                x = (x + 1) % SX
        pn = self.pn if num == "same" else (self.pn + 1) % M32
        if offs == "ok" and num == "same" and self.active and count <= NS - self.received:
            self.received += count
            if self.received >= NS:
                self.active = False
        return count, first, x, y, pn

    def key(self):
        return (S._pn_class(self.pn), self.received, self.active)

# event = (kind, variant, pn_rule, npo_rule, ppo_rule)
PN_RULES = ("next", "skip", "same", "abs0", "abs1", "absM1", "absM2")
ABS_PN = {"abs0": 0, "abs1": 1, "absM1": M32 - 1, "absM2": M32 - 2, "abs64k": 1 << 16}  # 2^16: equal to 0 in the low half only


def base_events():
    evs = [
        ("SH", 0, None, "ok", "ok"),
        ("PIC", "own", "next", "ok", "ok"),
        ("EOS", None, None, "ok", "ok"),
        ("FRAG0", "own", "next", "ok", "ok"),
        ("FRAGN", ("rest", "ok", "same"), None, "ok", "ok"),
        ("FRAGN", (2, "ok", "same"), None, "ok", "ok"),
        ("FRAGN", (1, "ok", "same"), None, "ok", "ok"),
        ("PAD", None, None, "ok", "ok"),
        ("AUX", None, None, "ok", "ok"),
        ("SH", 1, None, "ok", "ok"),
        ("SH", 2, None, "ok", "ok"),
        ("SH", 3, None, "ok", "ok"),
        ("FRAGN", (2, "bad", "same"), None, "ok", "ok"),
        ("FRAGN", ("rest", "alias", "same"), None, "ok", "ok"),
        ("FRAGN", ("rest", "ok", "diff"), None, "ok", "ok"),
        ("FRAGN", (3, "ok", "same"), None, "ok", "ok"),
        ("PIC", "foreign", "next", "ok", "ok"),
        ("FRAG0", "foreign", "next", "ok", "ok"),
    ]
    return evs


def events(two_deviations=False):
    evs = list(base_events())
    for kind in ("PIC", "FRAG0"):
        for r in PN_RULES[1:]:
            evs.append((kind, "own", r, "ok", "ok"))
    evs.append(("PIC", "own", "abs64k", "ok", "ok"))
    offs_kinds = [("SH", 0, None), ("PIC", "own", "next"), ("FRAG0", "own", "next"), ("FRAGN", ("rest", "ok", "same"), None), ("PAD", None, None), ("EOS", None, None)]
    for k, v, p in offs_kinds:
        for npo in ("zero", "plus1", "five"):
            evs.append((k, v, p, npo, "ok"))
        for ppo in ("zero", "plus1"):
            evs.append((k, v, p, "ok", ppo))
    if two_deviations:
        for k, v, p in offs_kinds:
            for npo in ("zero", "plus1"):
                for ppo in ("zero", "plus1"):
                    evs.append((k, v, p, npo, ppo))
        for kind in ("PIC", "FRAG0"):
            for r in ("skip", "same", "abs0", "absM1"):
                for npo in ("zero", "plus1"):
                    evs.append((kind, "own", r, npo, "ok"))
    out = []
    for e in evs:
        if e not in out:
            out.append(e)
    return out


class Context(object):
    def __init__(self, profile, major_version, level, fields):
        self.profile, self.major_version, self.level, self.fields = profile, major_version, level, fields
        self.f = B.tiny_format(profile=profile, major_version=major_version, level=level, picture_coding_mode=1 if fields else 0, frame_width=4, frame_height=8 if fields else 4, slices_x=SX, slices_y=SY)
        self.foreign = self.f.but(profile=B.PROFILE_HQ if profile == B.PROFILE_LD else B.PROFILE_LD)
        self.f_alt = self.f.but(frame_rate=("preset", 3))
        # a third header that differs from the first only in its last coded field before picture_coding_mode
        self.f_late = self.f.but(color_spec=("custom", None, None, 1))
        # a fourth header that *decodes* to the same values as the first but is spelled differently
        # (custom frame-rate flag set, carrying base format 0's own preset index 1 = 24000/1001)
        self.f_respelled = self.f.but(frame_rate=("preset", 1))
        self.sh = [B.seq_header(self.f), B.seq_header(self.f_alt), B.seq_header(self.f_late), B.seq_header(self.f_respelled)]
        self.hdr = {"major_version": major_version, "profile": profile, "level": level, "fields": bool(fields), "min_version": 1}

    @property
    def name(self):
        return "%s-v%d-l%d-%s" % ("LD" if self.profile == B.PROFILE_LD else "HQ", self.major_version, self.level, "fields" if self.fields else "frames")

    def tup(self):
        return (self.profile, self.major_version, self.level, self.fields)


def build_history(ctx, hist):
    """Events -> (builder units, abstract units for the reference)."""
    units, abstract = [], []
    counter = -1  # last picture number used anywhere in the stream
    ft = FragTracker()
    prev_len = None
    first = True
    for kind, variant, pnr, npo_rule, ppo_rule in hist:
        a = {"kind": kind if kind not in ("FRAG0", "FRAGN") else "FRAG"}
        if kind == "SH":
            u = ctx.sh[variant].copy()
            a["header"] = variant
            a["hdr"] = ctx.hdr
        elif kind == "EOS":
            u = B.end_of_sequence()
        elif kind == "PAD":
            u = B.padding(b"\x00")
        elif kind == "AUX":
            u = B.auxiliary(b"\xAA")
        elif kind in ("PIC", "FRAG0"):
            if pnr == "next":
                pn = (counter + 1) % M32
            elif pnr == "skip":
                pn = (counter + 2) % M32
            elif pnr == "same":
                pn = counter % M32
            else:
                pn = ABS_PN[pnr]
            counter = pn
            f = ctx.f if variant == "own" else ctx.foreign
            a["ld"] = f.profile == B.PROFILE_LD
            a["pn"] = pn
            if kind == "PIC":
                u = B.picture(f, pn)
            else:
                u = B.fragment_first(f, pn)
                a["slice_count"] = 0
                ft.start(pn)
        elif kind == "FRAGN":
            count, first_slice, x, y, pn = ft.resolve(variant)
            n_build = min(count, NS)
            first_build = first_slice if first_slice + n_build <= NS else 0
            u = B.fragment_slices(ctx.f, pn, first_build, n_build, x_offset=x, y_offset=y)
            a.update(ld=ctx.f.profile == B.PROFILE_LD, pn=pn, slice_count=count, x_offset=x, y_offset=y)
        else:
            raise ValueError(kind)
        length = 13 + len(u.payload())
        true_prev = 0 if first else prev_len
        npo = {"ok": 0 if kind == "EOS" else length, "zero": 0, "plus1": length + 1, "five": 5}[npo_rule]
        if kind == "EOS" and npo_rule == "zero":
            npo = 13  # the deviation for EOS: a non-zero offset
        ppo = {"ok": true_prev, "zero": 0 if true_prev else 13, "plus1": true_prev + 1}[ppo_rule]
        u.npo, u.ppo = npo, ppo
        a.update(length=length, npo=npo, ppo=ppo)
        units.append(u)
        abstract.append(a)
        prev_len = length
        first = kind == "EOS"
    return units, abstract


_LEVEL_AST = {}


def level_ast(level):
    if level not in _LEVEL_AST:
        from vc2_conformance.level_constraints import LEVEL_SEQUENCE_RESTRICTIONS
        from vc2_data_tables import Levels

        _LEVEL_AST[level] = R.parse(LEVEL_SEQUENCE_RESTRICTIONS[Levels(level)].sequence_restriction_regex)
    return _LEVEL_AST[level]


def run_ref(abstract, matcher_cls):
    ref = S.StreamRef(lambda lv: matcher_cls(level_ast(lv)), NS, SX)
    for a in abstract:
        ref.step(a)
    return ref


# -- canonical projection of the implementation's State ---------------------
DROP = {
    "_file", "current_byte", "next_bit", "_recorded_bytes", "_output_picture_callback",
    "y_transform", "c1_transform", "c2_transform", "quantizer", "current_picture", "bits_left",
    # byte offsets only ever passed to exception constructors
    "_last_picture_number_offset", "_picture_initial_fragment_offset", "_last_sequence_header_offset",
}


def matcher_key(m):
    """Colour refinement (bisimulation classes) of the Matcher's own NFA graph."""
    nodes = []
    seen = set()
    stack = [m.nfa.start, m.nfa.final] + list(m.cur_states)
    while stack:
        n = stack.pop()
        if id(n) in seen:
            continue
        seen.add(id(n))
        nodes.append(n)
        for dests in n.transitions.values():
            stack.extend(dests)
    colour = {id(n): (1 if n is m.nfa.final else 0) for n in nodes}
    nclasses = len(set(colour.values()))
    while True:
        sig = {}
        for n in nodes:
            sig[id(n)] = (
                colour[id(n)],
                tuple(sorted((repr(sym), tuple(sorted(set(colour[id(d)] for d in dests)))) for sym, dests in n.transitions.items() if dests)),
            )
        order = {s: i for i, s in enumerate(sorted(set(sig.values())))}
        colour = {k: order[v] for k, v in sig.items()}
        if len(order) == nclasses:
            break
        nclasses = len(order)
    return (nclasses, tuple(sorted(set(colour[id(n)] for n in m.cur_states))))


def impl_key(state, data_len, header_ids):
    items = []
    for k in sorted(state.keys()):
        if k in DROP:
            continue
        v = state[k]
        if k in ("_generic_sequence_matcher", "_level_sequence_matcher"):
            v = matcher_key(v)
        elif k in ("_last_picture_number", "picture_number"):
            v = S._pn_class(v)
        elif k == "_num_pictures_in_sequence":
            v = (v == 0, v % 2)
        elif k == "_last_parse_info_offset":
            v = None  # only differences are used; the difference to EOF is in next_parse_offset's class
        elif k == "next_parse_offset":
            true = data_len - state.get("_last_parse_info_offset", 0)
            v = "zero" if v == 0 else ("ok" if v == true else "bad")
        elif k == "previous_parse_offset":
            v = None  # already checked when it was read
        elif k == "fragment_data_length":
            v = None  # never read by the validator
        elif k == "_last_sequence_header_bytes":
            v = header_ids.get(bytes(v), "other:" + bytes(v).hex())
        elif k in ("video_parameters", "_level_constrained_values"):
            v = tuple((kk, repr(vv)) for kk, vv in v.items())
        elif k == "quant_matrix":
            v = repr(sorted((lv, sorted(d.items())) for lv, d in v.items()))
        else:
            v = repr(v)
        items.append((k, v))
    return tuple(items)


def run_impl(data):
    """(verdict label, alive, state, exception)."""
    v = pool.with_watchdog(HORIZON, vc2run.validate, data, True, False)
    if v.kind == "accept":
        return "accept", True, v.state, None
    if v.kind != "reject":
        return v.label, False, v.state, v.exc
    alive = False
    if type(v.exc).__name__ == "UnexpectedEndOfStream":
        names = []
        tb = v.exc.__traceback__
        while tb is not None:  # (traceback.extract_tb stats source files on every call)
            names.append(tb.tb_frame.f_code.co_name)
            tb = tb.tb_next
        from vc2_conformance.decoder import tell

        at_end = tell(v.state)[0] >= len(data)
        inner = [n for n in names if n in ("parse_info", "padding", "auxiliary_data", "picture_parse", "fragment_parse", "sequence_header")]
        alive = at_end and bool(inner) and inner[-1] == "parse_info"
    return v.label, bool(alive), v.state, v.exc


def evaluate(ctx, hist):
    """Run implementation and references on one history.

    Returns dict(problem, f5, key, alive)."""
    units, abstract = build_history(ctx, hist)
    data = B.assemble(units)
    label, alive, state, exc = run_impl(data)
    ref = run_ref(abstract, R.CorrectMatcher)
    out = {"problem": None, "f5": False, "label": label}
    impl_accept = label == "accept"
    if not (impl_accept or label.startswith("reject:")):
        out["problem"] = "validator raised %s (%s) instead of a conformance error" % (label, exc)
    elif impl_accept != ref.accepts_complete():
        dref = run_ref(abstract, R.DefectMatcher)
        if impl_accept == dref.accepts_complete():
            out["f5"] = True
        else:
            out["problem"] = "validator %s but reference %s (%s)" % (label, "accepts" if ref.accepts_complete() else "rejects", ref.dead or "incomplete stream")
    dref_key = run_ref(abstract, R.DefectMatcher).key()
    if impl_accept:
        ikey = ("BETWEEN",)
    elif alive:
        header_ids = {bytes(ctx.sh[i].payload()): i for i in range(len(ctx.sh))}
        ikey = impl_key(state, len(data), header_ids)
    else:
        ikey = ("DEAD",)
    # harness bookkeeping that shapes future events: last picture number used, fragment cursor
    counter = -1
    for a in abstract:
        if a["kind"] in ("PIC",) or (a["kind"] == "FRAG" and a["slice_count"] == 0):
            counter = a["pn"]
    out["alive"] = alive or impl_accept or ref.viable()
    out["key"] = (ikey, ref.key(), dref_key, S._pn_class(counter if counter >= 0 else None), _harness_frag(hist))
    out["both_dead"] = (not (alive or impl_accept)) and not ref.viable() and dref_key == ("DEAD",)
    return out


def _harness_frag(hist):
    ft = FragTracker()
    counter = -1
    for kind, variant, pnr, _, _ in hist:
        if kind in ("PIC", "FRAG0"):
            if pnr == "next":
                counter = (counter + 1) % M32
            elif pnr == "skip":
                counter = (counter + 2) % M32
            elif pnr == "same":
                counter = counter % M32
            else:
                counter = ABS_PN[pnr]
            if kind == "FRAG0":
                ft.start(counter)
        elif kind == "FRAGN":
            ft.resolve(variant)
    return ft.key()


def contexts(tier):
    LD, HQ = B.PROFILE_LD, B.PROFILE_HQ
    core = [
        (HQ, 3, 0, False),
        (LD, 3, 0, False),
        (HQ, 2, 0, False),
        (LD, 1, 0, False),
        (HQ, 3, 1, False),
        (HQ, 3, 0, True),
        (HQ, 2, 66, False),
        (LD, 2, 64, False),
        (LD, 2, 0, False),
        (LD, 3, 1, True),
        (HQ, 1, 0, False),
        (HQ, 3, 3, False),
    ]
    if tier == "thorough":
        allc = [(p, v, l, f) for p in (LD, HQ) for v in (1, 2, 3) for l in (0, 1, 3, 64, 66) for f in (False, True)]
        return core + [c for c in allc if c not in core]
    return core


def _expand(arg):
    """One BFS layer shard: evaluate every (history, event) pair assigned to this shard."""
    ctx_t, hists, evs = arg
    ctx = Context(*ctx_t)
    t = Tally()
    out = []
    with vc2run.permissive_levels():
        for h in hists:
            for e in evs:
                if e[0] == "SH" and e[1] >= 2 and not _sequence_has_header(h):
                    continue  # header variants 2, 3 only as *repeated* headers (as a first header they are symmetric to variant 0)
                h2 = list(h) + [e]
                try:
                    r = evaluate(ctx, h2)
                except pool.Watchdog:
                    t.violation("no verdict within horizon", {"context": ctx_t, "history": h2})
                    continue
                t.count("transitions")
                t.outcome("verdict", r["label"])
                case = {"context": list(ctx_t), "history": h2}
                if r["problem"]:
                    t.violation("%s: %s" % (ctx.name, r["problem"]), case)
                elif r["f5"]:
                    t.known_finding("F5", case)
                if r["label"] == "accept":
                    t.sample("accepted", case)
                if not r["both_dead"]:
                    out.append((stable_hash(r["key"]), h2))
    t.extra = out
    return t


def _sequence_has_header(h):
    for e in reversed(h):
        if e[0] == "EOS":
            return False
        if e[0] == "SH":
            return True
    return False


def bfs(ctx_t, depth, evs, total):
    frontier = [[]]
    seen = set()
    nstates = 1
    for d in range(depth):
        # shard the frontier
        n = max(1, min(64, len(frontier)))
        shards = [(ctx_t, frontier[i::n], evs) for i in range(n)]
        results = _map_with_extra(shards)
        nxt = []
        cand = []
        for t in results:
            cand.extend(t.extra)
            t.extra = None
            total.merge(t)
        cand.sort(key=lambda kh: (kh[0], repr(kh[1])))  # deterministic representative
        for k, h in cand:
            if k not in seen:
                seen.add(k)
                nxt.append(h)
        nstates += len(nxt)
        frontier = nxt
        total.n["max_depth"] = max(total.n["max_depth"], d + 1)
        if not frontier:
            break
    return nstates, len(frontier)


def _map_with_extra(shards):
    """pool.map_shards merges tallies and would drop `extra`; run the pool here."""
    import multiprocessing

    pool._FN = _expand
    if len(shards) == 1:
        return [_expand(shards[0])]
    ctx = multiprocessing.get_context("fork")
    with ctx.Pool(min(pool.NPROC, len(shards))) as p:
        return p.map(_expand_safe, shards, chunksize=1)


def _expand_safe(arg):
    try:
        return _expand(arg)
    except BaseException:  # noqa
        t = Tally()
        t.error("shard crashed:\n" + traceback.format_exc())
        t.extra = []
        return t


def _nodedup(arg):
    ctx_t, firsts, evs, depth = arg
    ctx = Context(*ctx_t)
    t = Tally()
    with vc2run.permissive_levels():
        for first in firsts:
            for n in range(0, depth):
                for rest in itertools.product(evs, repeat=n):
                    h = [first] + list(rest)
                    case = {"context": list(ctx_t), "history": h}
                    try:
                        r = evaluate(ctx, h)
                    except pool.Watchdog:
                        t.violation("no verdict within horizon", case)
                        continue
                    t.count("nodedup_histories")
                    if r["problem"]:
                        t.violation("%s: %s" % (ctx.name, r["problem"]), case)
                    elif r["f5"]:
                        t.known_finding("F5", case)
    return t


def run(ctx):
    quick = ctx.quick
    depth = 5 if quick else 6
    evs = events(two_deviations=not quick)
    cs = contexts(ctx.tier)
    if quick:
        cs = cs[:9] + [cs[9 + (ctx.seed % (len(cs) - 9))]]
    total = Tally()
    per_ctx = {}
    nstates_total = 0
    for c in cs:
        ns, open_frontier = bfs(c, depth, evs, total)
        per_ctx[Context(*c).name] = {"states": ns, "frontier_at_bound": open_frontier}
        nstates_total += ns
    # non-deduplicated enumeration (cross-check of the merge): all histories to depth 2/3
    nd_depth = 2 if quick else 3
    nd_ctx = cs[:3] if quick else cs[:6]
    shards = []
    for c in nd_ctx:
        for e in evs:
            shards.append((c, [e], evs, nd_depth))
    total.merge(pool.map_shards(_nodedup, shards))
    acc = total.hist["verdict"].get("accept", 0)
    classes = len([k for k in total.hist["verdict"] if k.startswith("reject:")])
    if (acc < 1 or classes < 8) and not total.violation_count:
        total.error("vacuous: %d accepted, %d rejection classes" % (acc, classes))
    cov = {
        "states": nstates_total,
        "transitions": total.n["transitions"] + total.n["nodedup_histories"],
        "traces_validated_against_impl": total.n["transitions"] + total.n["nodedup_histories"],
        "exhaustive": True,
        "bounds": {
            "depth_with_dedup": depth,
            "depth_without_dedup": nd_depth,
            "events_per_context": len(evs),
            "contexts": per_ctx,
            "deviation_dimensions_per_event": 1 if quick else 2,
        },
        "rejection_classes_reached": classes,
        "rule": "BFS over data-unit histories; each transition builds the bytes with the independent builder, runs the real parse_stream and the reference acceptor; states are deduplicated on (projection of the real State, reference state); histories dead in both are pruned",
    }
    return total, cov


def replay_case(case):
    c = tuple(case["context"])
    ctx = Context(*c)
    h = [tuple(tuple(x) if isinstance(x, list) else x for x in e) for e in case["history"]]
    with vc2run.permissive_levels():
        r = evaluate(ctx, h)
    return [r["problem"]] if r["problem"] else []
