"""C14 -- lossy encoding fills slices to the byte budget with the smallest qindex.

Every picture_bytes value in a window above the minimum x configurations x
overrides, judged by independent bit-length arithmetic (DESIGN.md 6, C14).
"""
import io

import mc  # noqa
from mc import pool
from mc.tally import Tally
from build import vc2build as B
from models import quantref
from props import encfeat

PROPERTY = "C14"
LEVEL = "exploration"
ASSUMPTIONS = [
    "unquantised slice coefficients are taken from the encoder's own transform_and_slice_picture (the property is about the quantiser search and packing, not the transform: see C11/C04)",
    "reference quantiser (models/quantref.py) and exp-Golomb lengths are independent of the repository; trailing zero coefficients need no bits inside a bounded block",
    "8x4 pictures, picture_bytes from (minimum - 2) to minimum + 40 (quick) / + 200 (thorough), plus three large values forcing slice_size_scaler > 1",
]


def sint_len(v):
    if v == 0:
        return 1
    return 2 * (abs(v) + 1).bit_length() - 1 + 1


def coeffs_bits(values):
    n = len(values)
    while n and values[n - 1] == 0:
        n -= 1
    return sum(sint_len(v) for v in values[:n])


def quantise(q, coeffs, qm):
    return [quantref.forward(c, max(0, q - m)) for c, m in zip(coeffs, qm)]


def configs(tier):
    quick = tier != "thorough"
    out = []
    span = 40 if quick else 200
    for profile in (0, 3):
        for wi in (4, 1, 3):
            for dd, ddho in ((1, 0), (2, 0), (1, 1)):
                for sx, sy in ((1, 1), (2, 1), (3, 2)):
                    n = sx * sy
                    minimum = n if profile == 0 else 4 * n
                    pbs = list(range(max(1, minimum - 2), minimum + span + 1)) + [n * 300, n * 600 + 1, n * 1000 + 3] + ([n * (4 + L) + d for L in (255, 256, 510, 511, 512) for d in (0, 1)] if profile == 3 else [])
                    for pb in pbs:
                        variants = [("noise", 0, 1), ("grey", 0, 1), ("checker", 0, 1), ("noise", 5, 1), ("noise", 40, 1)]
                        if profile == 3:
                            variants += [("noise", 0, 2), ("noise", 0, 3)]
                        if not quick:
                            variants += [("checker", 5, 2), ("max", 0, 1), ("ramp", 40, 3)]
                        for content, minq, mins in variants:
                            out.append((profile, wi, dd, ddho, sx, sy, pb, content, minq, mins))
    return out


def check(cfg):
    """Returns (label, problems)."""
    from vc2_conformance.encoder.exceptions import UnsatisfiableCodecFeaturesError
    from vc2_conformance.encoder.pictures import transform_and_slice_picture

    profile, wi, dd, ddho, sx, sy, pb, content, minq, mins = cfg
    cf = encfeat.make_cf("c14", profile=profile, wavelet_index=wi, dwt_depth=dd, dwt_depth_ho=ddho, slices_x=sx, slices_y=sy, picture_bytes=pb)
    pic = encfeat.make_picture(cf, content, 0, 0)
    n = sx * sy
    try:
        seq, data = encfeat.encode(cf, [pic], minimum_qindex=minq, minimum_slice_size_scaler=mins)
    except UnsatisfiableCodecFeaturesError as e:
        minimum = n if profile == 0 else 4 * n
        if pb >= minimum:
            return "refused", ["encoder refused picture_bytes=%d (>= minimum %d): %s" % (pb, minimum, type(e).__name__)]
        return "refused", []
    except Exception as e:  # noqa
        return "crash", ["encoder raised %s: %s" % (type(e).__name__, e)]
    problems = []
    coeffs = transform_and_slice_picture(cf, pic)
    du = [d for d in seq["data_units"] if "picture_parse" in d][0]
    wt = du["picture_parse"]["wavelet_transform"]
    td = wt["transform_data"]
    # --- serialised layout (independent parse) ---
    infos = B.walk_parse_infos(data)
    pics = [(o, c, npo) for o, c, npo, ppo in infos if c in (B.PC_LD_PICTURE, B.PC_HQ_PICTURE)]
    if len(pics) != 1:
        return "ok", ["expected one picture data unit in the stream"]
    off, code, npo = pics[0]
    sh = B.BitR(data, infos[0][0] + 13)
    major_version = sh.uint()
    r = B.BitR(data, off + 13 + 4)
    tp = B.read_transform_parameters(r, major_version, profile)
    r.align()
    start = r.byte_pos
    end = off + npo
    slice_total = end - start
    if profile == 0:
        if slice_total != pb:
            problems.append("LD slice data occupies %d bytes, picture_bytes=%d" % (slice_total, pb))
        if (tp["slices_x"], tp["slices_y"]) != (sx, sy):
            problems.append("slice counts differ")
        sizes = [B.ld_slice_bytes(B.Fmt(slices_x=sx, slice_bytes_numerator=tp["slice_bytes_numerator"], slice_bytes_denominator=tp["slice_bytes_denominator"]), i % sx, i // sx) for i in range(n)]
        if sum(sizes) != pb:
            problems.append("coded slice_bytes fraction gives %d bytes in total, picture_bytes=%d" % (sum(sizes), pb))
        for i, sl in enumerate(td["ld_slices"]):
            q = sl["qindex"]
            sc = coeffs[i // sx][i % sx]
            total = 8 * sizes[i]
            budget = total - 7 - B.intlog2(total - 7)
            cvals = [v for pair in zip(sc.C1.coeff_values, sc.C2.coeff_values) for v in pair]
            cqm = [v for pair in zip(sc.C1.quant_matrix_values, sc.C2.quant_matrix_values) for v in pair]

            def need(qq):
                return coeffs_bits(quantise(qq, sc.Y.coeff_values, sc.Y.quant_matrix_values)) + coeffs_bits(quantise(qq, cvals, cqm))

            problems += judge_q(i, q, minq, need, budget, 127)
            if sl["slice_y_length"] >= (1 << B.intlog2(total - 7)):
                problems.append("slice %d: slice_y_length %d does not fit its field" % (i, sl["slice_y_length"]))
            if list(sl["y_transform"]) != quantise(q, sc.Y.coeff_values, sc.Y.quant_matrix_values) or list(sl["c_transform"]) != quantise(q, cvals, cqm):
                problems.append("slice %d: coded coefficients are not the reference quantisation at qindex %d" % (i, q))
    else:
        scaler = tp["slice_size_scaler"]
        if scaler < mins:
            problems.append("slice_size_scaler %d below the requested minimum %d" % (scaler, mins))
        if abs(slice_total - pb) > scaler:
            problems.append("HQ slice data occupies %d bytes, picture_bytes=%d, slice_size_scaler=%d" % (slice_total, pb, scaler))
        # walk the slices by their length fields
        p = start
        for i in range(n):
            p += tp["slice_prefix_bytes"] + 1
            for c in range(3):
                ln = data[p]
                p += 1 + scaler * ln
        if p != end:
            problems.append("walking HQ slices by their length fields ends at %d, data unit ends at %d" % (p, end))
        num, den = pb - 4 * n, n * scaler
        for i, sl in enumerate(td["hq_slices"]):
            q = sl["qindex"]
            sc = coeffs[i // sx][i % sx]
            units = ((i + 1) * num) // den - (i * num) // den
            budget = 8 * scaler * units

            def need(qq):
                t = 0
                for comp in (sc.Y, sc.C1, sc.C2):
                    b = coeffs_bits(quantise(qq, comp.coeff_values, comp.quant_matrix_values))
                    t += ((b + 8 * scaler - 1) // (8 * scaler)) * 8 * scaler
                return t

            problems += judge_q(i, q, minq, need, budget, 255)
            for name in ("slice_y_length", "slice_c1_length", "slice_c2_length"):
                if not 0 <= sl[name] <= 255:
                    problems.append("slice %d: %s=%d does not fit 8 bits" % (i, name, sl[name]))
            if sl["slice_y_length"] + sl["slice_c1_length"] + sl["slice_c2_length"] != units:
                problems.append("slice %d: length fields sum to %d, budget is %d units" % (i, sl["slice_y_length"] + sl["slice_c1_length"] + sl["slice_c2_length"], units))
    return "ok", problems[:3]


def judge_q(i, q, minq, need, budget, qmax):
    out = []
    if q < minq:
        out.append("slice %d: qindex %d below the requested minimum %d" % (i, q, minq))
    if q > qmax:
        out.append("slice %d: qindex %d exceeds %d" % (i, q, qmax))
    if need(q) > budget:
        out.append("slice %d: coefficients at qindex %d need %d bits, budget %d" % (i, q, need(q), budget))
    if q - 1 >= minq and need(q - 1) <= budget:
        out.append("slice %d: qindex %d chosen although %d already fits (%d <= %d bits)" % (i, q, q - 1, need(q - 1), budget))
    return out


def _shard(arg):
    tier, w, n = arg
    t = Tally()
    for cfg in configs(tier)[w::n]:
        label, problems = check(cfg)
        t.count("configs")
        t.outcome("outcome", label)
        if problems:
            t.violation("%r: %s" % (cfg, problems[0]), {"config": cfg})
        elif label == "ok":
            t.distinct("ok", cfg)
            t.sample("ok-profile%d" % cfg[0], cfg)
    return t


def run(ctx):
    n = 64
    total = pool.map_shards(_shard, [(ctx.tier, w, n) for w in range(n)])
    cfgs = configs(ctx.tier)
    if total.n["configs"] != len(cfgs):
        total.error("evaluated %d of %d" % (total.n["configs"], len(cfgs)))
    if total.ndistinct("ok") * 2 < len(cfgs) and not total.violation_count:
        total.error("vacuous")
    cov = {
        "evaluations": total.n["configs"],
        "distinct_nontrivial": total.ndistinct("ok"),
        "rule": "both profiles x 3 wavelets x 3 depth pairs x 3 slice layouts x every picture_bytes in the window (and three large values) x content / minimum_qindex / minimum_slice_size_scaler variants; each encoded with the real encoder; per slice the reference quantiser decides 'fits' for q and q-1; the serialised layout is parsed independently; non-trivial = distinct configurations encoded and fully checked",
        "exhaustive": True,
        "bounds": {"configs": len(cfgs), "picture_bytes_window": "min-2 .. min+%d" % (40 if ctx.quick else 200)},
    }
    return total, cov


def replay_case(case):
    return check(tuple(case["config"]))[1]
