"""C17 -- constraint-table queries follow set semantics.

Three parts (DESIGN.md section 6, C17):

A. ValueSet: explicit-state BFS *to fixpoint* over operation histories
   (add_value / add_range / unions / constructor forms) on the real class, key =
   the implementation's own (_values, _ranges); oracle = Python frozenset.
   Plus a non-deduplicated enumeration of all histories to a smaller depth, and
   is_disjoint over pairs of reached states against frozenset.isdisjoint.
B. Tables: every table with <= N columns x 2 keys from a 7-element cell
   alphabet; is_allowed_combination / allowed_values_for against the reference
   table semantics and against each other; the real
   decoder.assertions.assert_level_constraint fed one key/value at a time.
C. CSV: every 2-row x <= 3-column file over a 7-element cell alphabet.
"""
import itertools
import os
import shutil
import sys

import mc
from mc import pool, space
from mc.tally import Tally

from models import setmodel as sm

PROPERTY = "C17"
LEVEL = "model_checking"
ASSUMPTIONS = [
    "ValueSet universe is the integers 0..6 plus True (bool/int aliasing follows Python equality in model and implementation); ranges have integer bounds lo <= hi",
    "duplicates yielded by iter_values()/__iter__ are not judged (the property is about containment)",
    "tables contain no empty ('catch-all') column; table keys k0,k1 (k2 never constrained), values 0..3",
    "incremental acceptance: a key may be re-asserted only with the value it already has (the decoder re-asserts keys; re-assertion with a *different* value is outside the property: the implementation then also requires compatibility with the previous value of that key)",
    "LEVEL_CONSTRAINTS is swapped in place (as tests/alternative_level_constraints.py does) and restored",
    "CSV files are written as raw text (cells quoted only where needed) to a scratch directory under /dev/shm (or /tmp), removed afterwards",
]

# ---------------------------------------------------------------------------
# Part A: ValueSet
# ---------------------------------------------------------------------------
U = list(range(7))
PROBES = U + [7, -1, True, False]

# constructor forms: tuple of constructor args, or "any"
FORMS = [
    (),
    (3,),
    ((1, 2),),
    (0, (4, 6)),
    ((0, 1), (2, 3)),  # adjacent ranges
    ((0, 3), (2, 5)),  # overlapping ranges given to the constructor
    (5, (4, 6)),  # value inside a later range
    ((4, 6), 5),  # value inside an earlier range
    (True,),
    "any",
]


def vs_alphabet():
    ops = []
    for v in U:
        ops.append(("add_value", v))
    ops.append(("add_value", True))
    for lo in U:
        for hi in U:
            if lo <= hi:
                ops.append(("add_range", lo, hi))
    for fi in range(len(FORMS)):
        ops.append(("union_r", fi))  # A = A + B
    for fi in range(len(FORMS)):
        ops.append(("union_l", fi))  # A = B + A
    ops.append(("union_self",))
    return ops


def _ct():
    import vc2_conformance.constraint_table as ct

    return ct


def make_form(form):
    ct = _ct()
    if form == "any":
        return ct.AnyValue()
    return ct.ValueSet(*form)


def model_form(form):
    if form == "any":
        return sm.ANY
    return sm.from_args(form)


def key_of(obj):
    """The implementation's own state, no abstraction."""
    ct = _ct()
    if isinstance(obj, ct.AnyValue):
        return ("ANY",)
    return (
        "VS",
        tuple(sorted((int(v), type(v).__name__) for v in obj._values)),
        tuple(sorted(obj._ranges)),
    )


def apply_vs_op(obj, op, retired=None):
    """Apply op to the real object; returns (new object, problems).

    `retired` collects (object, key) of every operand of a union: a union must return a set that is
    independent of its operands, so later in-place additions to the result must not change them."""
    kind = op[0]
    problems = []
    if retired is None:
        retired = []
    if kind == "add_value":
        obj.add_value(op[1])
        return obj, problems
    if kind == "add_range":
        obj.add_range(op[1], op[2])
        return obj, problems
    if kind in ("union_r", "union_l"):
        other = make_form(FORMS[op[1]])
        ka, kb = key_of(obj), key_of(other)
        new = (obj + other) if kind == "union_r" else (other + obj)
        if key_of(obj) != ka or key_of(other) != kb:
            problems.append("%r modified an operand" % (op,))
        retired.append((obj, ka, "left operand of %r" % (op,) if kind == "union_r" else "right operand of %r" % (op,)))
        retired.append((other, kb, "the other operand of %r" % (op,)))
        return new, problems
    if kind == "union_self":
        ka = key_of(obj)
        new = obj + obj
        if key_of(obj) != ka:
            problems.append("%r modified its operand" % (op,))
        retired.append((obj, ka, "operand of %r" % (op,)))
        return new, problems
    raise ValueError(op)


def model_vs_op(m, op):
    kind = op[0]
    if kind == "add_value":
        return sm.add_value(m, op[1])
    if kind == "add_range":
        return sm.add_range(m, op[1], op[2])
    if kind in ("union_r", "union_l"):
        return sm.union(m, model_form(FORMS[op[1]]))
    if kind == "union_self":
        return sm.union(m, m)
    raise ValueError(op)


def check_vs(obj, m):
    """Compare a real ValueSet/AnyValue with the model set."""
    ct = _ct()
    problems = []
    if (m is sm.ANY) != isinstance(obj, ct.AnyValue):
        problems.append("type %s but model %s" % (type(obj).__name__, "ANY" if m is sm.ANY else "finite"))
        return problems
    for p in PROBES:
        got = p in obj
        want = sm.contains(m, p)
        if bool(got) != want:
            problems.append("%r in set -> %r, model %r" % (p, got, want))
    if m is not sm.ANY:
        vals = set(obj.iter_values())
        if vals != set(m):
            problems.append("set(iter_values()) = %r, model %r" % (sorted(map(int, vals)), sorted(map(int, m))))
        expanded = set()
        for item in obj:
            if isinstance(item, tuple):
                expanded |= set(range(item[0], item[1] + 1))
            else:
                expanded.add(item)
        if expanded != set(m):
            problems.append("expansion of __iter__ = %r, model %r" % (sorted(map(int, expanded)), sorted(map(int, m))))
    return problems


def run_vs_history(hist, check_all=True):
    """hist = [("ctor", form_index), op, op, ...] -> (problems, key, model).

    With check_all=False only the state after the last operation is compared
    with the model (the BFS has already judged every proper prefix).
    """
    first = hist[0]
    if first[0] != "ctor":
        raise ValueError("history must start with a constructor")
    obj = make_form(FORMS[first[1]])
    m = model_form(FORMS[first[1]])
    last = len(hist) - 1
    if check_all or last == 0:
        problems = ["step 0 %r: %s" % (first, p) for p in check_vs(obj, m)]
        if problems:
            return problems, ("bad",), m
    retired = []
    for step, op in enumerate(hist[1:], 1):
        obj, pr = apply_vs_op(obj, op, retired)
        m = model_vs_op(m, op)
        for old, key, what in retired:
            if key_of(old) != key:
                pr = pr + ["%s was changed by a later operation on the result (aliasing): %r -> %r" % (what, key, key_of(old))]
                break
        if check_all or step == last:
            pr = pr + check_vs(obj, m)
        if pr:
            return ["step %d %r: %s" % (step, op, p) for p in pr], ("bad",), m
    return [], key_of(obj), m


def _hist_ops(alpha, idx):
    """Index history (form index, op index, ...) -> explicit history."""
    return [("ctor", idx[0])] + [alpha[i] for i in idx[1:]]


MAX_VS_STATES = 30000


def vs_bfs(total, max_depth=40):
    """BFS with dedup on the real object's own state; returns ({key: index history}, {key: depth}).

    Runs in this process: one transition costs a few microseconds, a worker pool
    per level costs more than it saves.
    """
    alpha = vs_alphabet()
    seen = {}
    depth_of = {}
    frontier = []
    for fi in range(len(FORMS)):
        hist = [("ctor", fi)]
        problems, key, m = run_vs_history(hist)
        total.count("vs_bfs_transitions")
        if problems:
            total.violation(problems[0], {"part": "valueset", "history": hist})
            continue
        if key not in seen:
            seen[key] = (fi,)
            depth_of[key] = 0
            frontier.append((fi,))
    depth = 0
    while frontier and depth < max_depth:
        depth += 1
        nxt = []
        for idx in frontier:
            for oi in range(len(alpha)):
                idx2 = idx + (oi,)
                hist = _hist_ops(alpha, idx2)
                problems, key, m = run_vs_history(hist, check_all=False)
                total.count("vs_bfs_transitions")
                if problems:
                    total.violation(problems[0], {"part": "valueset", "history": hist})
                    continue
                if key not in seen:
                    seen[key] = idx2
                    depth_of[key] = depth
                    nxt.append(idx2)
        frontier = nxt
        if total.violation_count:
            # the verdict is already "violated"; a broken implementation may have an
            # enormous (_values, _ranges) space -- do not chase it
            frontier = []
            break
        if len(seen) > MAX_VS_STATES:
            total.error("ValueSet BFS exceeded %d states without reaching a fixpoint" % MAX_VS_STATES)
            frontier = []
            break
    if frontier:
        total.error("ValueSet BFS did not reach a fixpoint by depth %d" % max_depth)
    total.n["vs_bfs_depth"] = depth
    return seen, depth_of


def _nodedup_shard(arg):
    """All histories ctor + n ops (n <= depth), no dedup; reports reached keys."""
    fi, first_ops, depth = arg
    alpha = vs_alphabet()
    t = Tally()
    for first in first_ops:
        for n in range(0, depth):
            for rest in itertools.product(range(len(alpha)), repeat=n):
                idx = (fi, first) + rest
                hist = _hist_ops(alpha, idx)
                problems, key, m = run_vs_history(hist)
                t.count("vs_nodedup_histories")
                if problems:
                    t.violation(problems[0], {"part": "valueset", "history": hist})
                else:
                    t.distinct("vs_nodedup_states", key)
    return t


_DISJOINT = None  # (states, objs, models): built once in the parent, inherited by the forked workers


def _prepare_disjoint(states):
    global _DISJOINT
    alpha = vs_alphabet()
    objs = []
    models = []
    for idx in states:
        hist = _hist_ops(alpha, idx)
        obj = make_form(FORMS[idx[0]])
        m = model_form(FORMS[idx[0]])
        for op in hist[1:]:
            obj, _ = apply_vs_op(obj, op)
            m = model_vs_op(m, op)
        objs.append(obj)
        models.append(m)
    _DISJOINT = (states, objs, models)


def _disjoint_shard(arg):
    offset, stride, partner_limit = arg
    states, objs, models = _DISJOINT
    alpha = vs_alphabet()
    t = Tally()
    n = len(states)

    def bad(i, j, got, want):
        if t.violation_count >= 8:
            t.violation_count += 1  # (cases beyond the kept ones are only counted)
        else:
            t.violation(
                "is_disjoint -> %r, model %r" % (got, want),
                {"part": "disjoint", "a": _hist_ops(alpha, states[i]), "b": _hist_ops(alpha, states[j])},
            )

    for i in range(offset, n, stride):
        a, ma = objs[i], models[i]
        for j in range(min(n, partner_limit)):
            got = a.is_disjoint(objs[j])
            want = sm.disjoint(ma, models[j])
            t.count("disjoint_pairs")
            t.outcome("disjoint", "disjoint" if want else "overlap")
            if bool(got) != want:
                bad(i, j, got, want)
        if partner_limit < n:
            # the other argument order for the pairs not visited as (j, i)
            for j in range(min(n, partner_limit)):
                if i < partner_limit:
                    break
                got = objs[j].is_disjoint(a)
                want = sm.disjoint(models[j], ma)
                t.count("disjoint_pairs")
                if bool(got) != want:
                    bad(j, i, got, want)
    return t


def replay_disjoint(case):
    pa, ka, ma = run_vs_history(_untuple_hist(case["a"]))
    pb, kb, mb = run_vs_history(_untuple_hist(case["b"]))
    if pa or pb:
        return pa + pb
    a = _build(_untuple_hist(case["a"]))
    b = _build(_untuple_hist(case["b"]))
    got = a.is_disjoint(b)
    want = sm.disjoint(ma, mb)
    if bool(got) != want:
        return ["is_disjoint -> %r, model %r" % (got, want)]
    return []


def _build(hist):
    obj = make_form(FORMS[hist[0][1]])
    for op in hist[1:]:
        obj, _ = apply_vs_op(obj, op)
    return obj


def _untuple_hist(h):
    return [tuple(op) for op in h]


# ---------------------------------------------------------------------------
# Part B: tables
# ---------------------------------------------------------------------------
KEYS = ("k0", "k1")
BOGUS_KEY = "k2"
VALUES = (0, 1, 2, 3)
# cell codes
CELLS = ("empty", "s0", "s1", "s01", "r02", "any", "absent")


def cell_model(code):
    return {
        "empty": frozenset(),
        "s0": frozenset([0]),
        "s1": frozenset([1]),
        "s01": frozenset([0, 1]),
        "r02": frozenset([0, 1, 2]),
        "any": sm.ANY,
    }[code]


def cell_real(code):
    ct = _ct()
    if code == "empty":
        return ct.ValueSet()
    if code == "s0":
        return ct.ValueSet(0)
    if code == "s1":
        return ct.ValueSet(1)
    if code == "s01":
        return ct.ValueSet(0, 1)
    if code == "r02":
        return ct.ValueSet((0, 2))
    if code == "any":
        return ct.AnyValue()
    raise ValueError(code)


def column_codes():
    """All columns over KEYS except the empty (catch-all) column, sorted."""
    out = []
    for cells in itertools.product(CELLS, repeat=len(KEYS)):
        if all(c == "absent" for c in cells):
            continue
        out.append(cells)
    return out


def build_tables(cols):
    real = []
    model = []
    for cells in cols:
        r = {}
        m = {}
        for k, code in zip(KEYS, cells):
            if code == "absent":
                continue
            r[k] = cell_real(code)
            m[k] = cell_model(code)
        real.append(r)
        model.append(m)
    return real, model


def assignments():
    """All partial assignments: k0,k1 in {unset,0..3}, k2 in {unset,0}."""
    out = []
    for v0 in (None,) + VALUES:
        for v1 in (None,) + VALUES:
            for v2 in (None, 0):
                a = {}
                if v0 is not None:
                    a["k0"] = v0
                if v1 is not None:
                    a["k1"] = v1
                if v2 is not None:
                    a[BOGUS_KEY] = v2
                out.append(a)
    return out


def sequences(maxlen=3):
    """Key/value sequences; a key may repeat only with the same value."""
    pairs = [(k, v) for k in KEYS for v in VALUES] + [(BOGUS_KEY, 0)]
    out = []
    for n in range(1, maxlen + 1):
        for seq in itertools.product(pairs, repeat=n):
            cur = {}
            ok = True
            for k, v in seq:
                if k in cur and cur[k] != v:
                    ok = False
                    break
                cur[k] = v
            if ok:
                out.append(seq)
    return out


_ASSIGNMENTS = None
_SEQUENCES = None


def _level_hooks():
    import vc2_conformance.decoder  # noqa: F401  (package import populates sys.modules)
    from vc2_conformance import level_constraints

    assertions = sys.modules["vc2_conformance.decoder.assertions"]
    exceptions = sys.modules["vc2_conformance.decoder.exceptions"]
    from vc2_conformance.pseudocode.state import State

    return level_constraints.LEVEL_CONSTRAINTS, assertions, exceptions.ValueNotAllowedInLevel, State


def check_queries(real, model, a):
    """Whole-dictionary queries for one table and one partial assignment."""
    ct = _ct()
    problems = []
    got = ct.is_allowed_combination(real, dict(a))
    want = sm.is_allowed(model, a)
    if bool(got) != want:
        problems.append("is_allowed_combination(%r) -> %r, model %r" % (a, got, want))
    for k in KEYS + (BOGUS_KEY,):
        if k in a:
            continue
        sentinel = ct.ValueSet(99)
        r = ct.allowed_values_for(real, k, dict(a), sentinel)
        want_set, want_any = sm.allowed_values(model, k, a, VALUES)
        if want_any:
            if r is not sentinel:
                problems.append("allowed_values_for(%r, %r) -> %r, model: any value (substitute expected)" % (k, a, r))
                continue
            r2 = ct.allowed_values_for(real, k, dict(a))
            if not isinstance(r2, ct.AnyValue):
                problems.append("allowed_values_for(%r, %r) -> %r, model: AnyValue" % (k, a, r2))
            members = set(VALUES)
        else:
            if r is sentinel or isinstance(r, ct.AnyValue):
                problems.append("allowed_values_for(%r, %r) -> any, model %r" % (k, a, sorted(want_set)))
                continue
            members = set(v for v in VALUES if v in r)
            if members != set(want_set):
                problems.append("allowed_values_for(%r, %r) contains %r, model %r" % (k, a, sorted(members), sorted(want_set)))
            listed = set(r.iter_values())
            if listed != set(want_set):
                problems.append("allowed_values_for(%r, %r).iter_values() = %r, model %r" % (k, a, sorted(listed), sorted(want_set)))
        # the property's own equivalence, on the implementation alone
        for v in VALUES:
            a2 = dict(a)
            a2[k] = v
            comb = ct.is_allowed_combination(real, a2)
            if bool(comb) != (v in members):
                problems.append(
                    "%r in allowed_values_for(%r, %r) is %r but is_allowed_combination(%r) is %r" % (v, k, a, v in members, a2, comb)
                )
    return problems


def check_sequence(real, model, seq, hooks):
    """Feed seq through the real assert_level_constraint (table already swapped in)."""
    L, assertions, VNA, State = hooks
    problems = []
    want_rej = sm.first_rejected(model, seq)
    state = State()
    accepted = {}
    got_rej = None
    for i, (k, v) in enumerate(seq):
        try:
            assertions.assert_level_constraint(state, k, v)
        except VNA as e:
            got_rej = i
            if dict(state.get("_level_constrained_values", {})) != accepted:
                problems.append("rejected step %d changed the recorded values to %r" % (i, dict(state["_level_constrained_values"])))
            # the exception reports the offending pair, the accepted values and the allowed set
            if e.key != k or e.value != v:
                problems.append("rejection at step %d reports %r=%r" % (i, e.key, e.value))
            if dict(e.level_constrained_values) != accepted:
                problems.append("rejection at step %d reports previously accepted values %r, expected %r" % (i, dict(e.level_constrained_values), accepted))
            av = e.allowed_values
            if v in av:
                problems.append("rejection at step %d reports allowed values containing the rejected value" % i)
            want_set, want_any = sm.allowed_values(model, k, accepted, VALUES)
            if not want_any and set(x for x in VALUES if x in av) != set(want_set):
                problems.append("rejection at step %d reports allowed values %r, model %r" % (i, sorted(x for x in VALUES if x in av), sorted(want_set)))
            break
        accepted[k] = v
        if dict(state["_level_constrained_values"]) != accepted:
            problems.append("after step %d recorded values are %r, expected %r" % (i, dict(state["_level_constrained_values"]), accepted))
            break
    if got_rej != want_rej:
        problems.append("sequence %r: first rejected step %r, model %r" % (list(seq), got_rej, want_rej))
    return problems, want_rej


def check_table(cols, t, with_sequences=True):
    global _ASSIGNMENTS, _SEQUENCES
    if _ASSIGNMENTS is None:
        _ASSIGNMENTS = assignments()
        _SEQUENCES = sequences()
    real, model = build_tables(cols)
    for a in _ASSIGNMENTS:
        pr = check_queries(real, model, a)
        t.count("table_assignments")
        if pr:
            t.violation(pr[0], {"part": "table", "columns": cols, "assignment": a})
    if with_sequences:
        hooks = _level_hooks()
        L = hooks[0]
        if hooks[1].LEVEL_CONSTRAINTS is not L:
            t.error("decoder.assertions does not share level_constraints.LEVEL_CONSTRAINTS")
            return
        saved = list(L)
        try:
            del L[:]
            L.extend(real)
            for seq in _SEQUENCES:
                pr, rej = check_sequence(real, model, seq, hooks)
                t.count("table_sequences")
                t.outcome("incremental", "accepted" if rej is None else "rejected@%d" % rej)
                if pr:
                    t.violation(pr[0], {"part": "sequence", "columns": cols, "sequence": seq})
        finally:
            del L[:]
            L.extend(saved)


def _table_shard(arg):
    ncols, offset, stride = arg
    cc = column_codes()
    t = Tally()
    for i, cols in space.product_shard([cc] * ncols, offset, stride):
        check_table(list(cols), t)
        t.count("tables")
        t.count("tables_%dcol" % ncols)
    return t


# ---------------------------------------------------------------------------
# Part C: CSV
# ---------------------------------------------------------------------------
# (text as it appears in the file, text after CSV unquoting)
CSV_CELLS = [
    ("", ""),
    ("1", "1"),
    ("2-4", "2-4"),
    ('"1,3-5"', "1,3-5"),
    ("TRUE", "TRUE"),
    ("any", "any"),
    ('""""', '"'),
]
SCRATCH = ("/dev/shm" if os.path.isdir("/dev/shm") and os.access("/dev/shm", os.W_OK) else "/tmp") + "/verif_c17_scratch"


def csv_text(cell_idx_rows, decorate):
    lines = []
    if decorate:
        lines.append("# a comment row,#x")
    for r, cells in enumerate(cell_idx_rows):
        lines.append(",".join(["k%d" % r] + [CSV_CELLS[c][0] for c in cells]))
        if decorate and r == 0:
            lines.append("," * len(cells))
    return "\n".join(lines) + "\n"


def check_csv(cell_idx_rows, decorate, path):
    ct = _ct()
    problems = []
    with open(path, "w") as f:
        f.write(csv_text(cell_idx_rows, decorate))
    got = ct.read_constraints_from_csv(path)
    want = sm.csv_table([("k%d" % r, [CSV_CELLS[c][1] for c in cells]) for r, cells in enumerate(cell_idx_rows)])
    if len(got) != len(want):
        return ["%d columns read, %d written" % (len(got), len(want))], want
    for ci, (gc, wc) in enumerate(zip(got, want)):
        if sorted(gc.keys()) != sorted(wc.keys()):
            problems.append("column %d has keys %r, expected %r" % (ci, sorted(gc.keys()), sorted(wc.keys())))
            continue
        for k in sorted(wc):
            g, w = gc[k], wc[k]
            if w is sm.ANY:
                if not isinstance(g, ct.AnyValue):
                    problems.append("column %d key %s: %r, expected AnyValue" % (ci, k, g))
                continue
            if isinstance(g, ct.AnyValue):
                problems.append("column %d key %s: AnyValue, expected %r" % (ci, k, sorted(map(int, w))))
                continue
            vals = list(g.iter_values())
            if set(vals) != set(w):
                problems.append("column %d key %s: values %r, expected %r" % (ci, k, sorted(map(int, set(vals))), sorted(map(int, w))))
            for p in PROBES:
                if (p in g) != (p in w):
                    problems.append("column %d key %s: %r in cell -> %r" % (ci, k, p, p in g))
            # TRUE cells hold a bool
            want_bool = any(isinstance(x, bool) for x in w)
            got_bool = any(isinstance(x, bool) for x in vals)
            if want_bool != got_bool:
                problems.append("column %d key %s: bool-typed value present=%r, expected %r" % (ci, k, got_bool, want_bool))
    return problems, want


def _csv_ragged_shard(arg):
    """Two rows with different numbers of cells (l1 != l2)."""
    l1, l2, offset, stride = arg
    t = Tally()
    d = os.path.join(SCRATCH, "r%d_%d_%d" % (l1, l2, offset))
    os.makedirs(d, exist_ok=True)
    path = os.path.join(d, "t.csv")
    try:
        cells = list(range(len(CSV_CELLS)))
        for i, flat in space.product_shard([cells] * (l1 + l2), offset, stride):
            rows = [list(flat[:l1]), list(flat[l1:])]
            pr, want = check_csv(rows, False, path)
            t.count("csv_files")
            t.count("csv_files_ragged")
            if pr:
                t.violation(pr[0], {"part": "csv", "rows": rows, "decorate": False})
    finally:
        shutil.rmtree(d, ignore_errors=True)
    return t


def _csv_shard(arg):
    if arg[0] == "ragged":
        return _csv_ragged_shard(arg[1:])
    ncols, offset, stride, decorate = arg
    t = Tally()
    d = os.path.join(SCRATCH, "w%d_%d_%d" % (ncols, offset, int(decorate)))
    os.makedirs(d, exist_ok=True)
    path = os.path.join(d, "t.csv")
    try:
        cells = list(range(len(CSV_CELLS)))
        for i, flat in space.product_shard([cells] * (2 * ncols), offset, stride):
            rows = [list(flat[:ncols]), list(flat[ncols:])]
            pr, want = check_csv(rows, decorate, path)
            t.count("csv_files")
            t.count("csv_files_%dcol%s" % (ncols, "_decorated" if decorate else ""))
            for col in want:
                for k in col:
                    w = col[k]
                    t.outcome("csv_cell", "any" if w is sm.ANY else ("empty" if not w else "values"))
            if pr:
                t.violation(pr[0], {"part": "csv", "rows": rows, "decorate": decorate})
    finally:
        shutil.rmtree(d, ignore_errors=True)
    return t


# ---------------------------------------------------------------------------
def _rot(shards, seed):
    if not shards:
        return shards
    k = seed % len(shards)
    return shards[k:] + shards[:k]


def run(ctx):
    total = Tally()
    alpha = vs_alphabet()

    # ---- A: ValueSet BFS to fixpoint ----
    seen, depth_of = vs_bfs(total)
    for key in seen:
        total.distinct("vs_states", key)
    states = [seen[k] for k in sorted(seen, key=lambda k: (depth_of[k], seen[k]))]
    n_states = len(states)
    by_depth = {}
    for k in seen:
        by_depth[depth_of[k]] = by_depth.get(depth_of[k], 0) + 1
    if n_states < 100:
        total.error("ValueSet BFS reached only %d states: vacuous" % n_states)
    if states:
        total.sample("valueset-deepest", {"part": "valueset", "history": _hist_ops(alpha, states[-1])})

    # ---- A': non-deduplicated histories ----
    nd_depth = 2 if ctx.quick else 3
    shards = []
    for fi in range(len(FORMS)):
        for oi in range(0, len(alpha), 8):
            shards.append((fi, list(range(oi, min(len(alpha), oi + 8))), nd_depth))
    res = pool.map_shards(_nodedup_shard, _rot(shards, ctx.seed))
    total.merge(res)
    expected_nd = len(FORMS) * len(alpha) * space.count_sequences_upto(len(alpha), nd_depth - 1)
    exhaustive = True
    if total.n["vs_nodedup_histories"] != expected_nd and not total.violation_count:
        total.error("non-dedup enumeration ran %d histories, expected %d" % (total.n["vs_nodedup_histories"], expected_nd))
        exhaustive = False
    # cross-check with BFS: every state reached without dedup at depth <= nd_depth must be a BFS state of depth <= nd_depth
    bfs_upto = set()
    from mc.tally import stable_hash

    for k in seen:
        if depth_of[k] <= nd_depth:
            bfs_upto.add(stable_hash(k))
    if not total.violation_count:
        nd = set(total.sets.get("vs_nodedup_states", set()))
        nd |= set(stable_hash(k) for k in seen if depth_of[k] == 0)
        if nd != bfs_upto:
            total.error(
                "dedup/non-dedup disagreement: %d states by BFS to depth %d, %d by plain enumeration" % (len(bfs_upto), nd_depth, len(nd))
            )

    # ---- A'': is_disjoint over pairs of reached states ----
    partner_limit = sum(v for d, v in by_depth.items() if d <= (2 if ctx.quick else 99))
    nsh = 48
    if total.violation_count and n_states > 20000:
        total.count("disjoint_skipped_after_violation")
    else:
        _prepare_disjoint(states)
        shards = [(w, nsh, partner_limit) for w in range(nsh)]
        res = pool.map_shards(_disjoint_shard, _rot(shards, ctx.seed))
        total.merge(res)
    if len(total.hist["disjoint"]) < 2 and not total.violation_count:
        total.error("is_disjoint check is vacuous: outcomes %r" % dict(total.hist["disjoint"]))

    # ---- B: tables ----
    max_cols = 2 if ctx.quick else 3
    cc = column_codes()
    shards = []
    expected_tables = 0
    for ncols in range(0, max_cols + 1):
        n = len(cc) ** ncols
        expected_tables += n
        for off, stride in pool.strided(n, 64 if ncols < 3 else 256):
            shards.append((ncols, off, stride))
    res = pool.map_shards(_table_shard, _rot(shards, ctx.seed))
    total.merge(res)
    if total.n["tables"] != expected_tables and not total.violation_count:
        total.error("evaluated %d tables, expected %d" % (total.n["tables"], expected_tables))
        exhaustive = False
    if len(total.hist["incremental"]) < 3 and not total.violation_count:
        total.error("incremental acceptance is vacuous: %r" % dict(total.hist["incremental"]))
    total.sample("table", {"part": "sequence", "columns": [["s0", "s1"], ["s1", "any"]], "sequence": [["k0", 1], ["k1", 3]]})
    total.sample("table", {"part": "table", "columns": [["r02", "absent"], ["any", "s01"]], "assignment": {"k1": 1}})

    # ---- C: CSV ----
    shutil.rmtree(SCRATCH, ignore_errors=True)
    os.makedirs(SCRATCH, exist_ok=True)
    expected_csv = 0
    shards = []
    try:
        for ncols in (1, 2, 3):
            n = len(CSV_CELLS) ** (2 * ncols)
            expected_csv += n
            for off, stride in pool.strided(n, 64):
                shards.append((ncols, off, stride, False))
        for ncols in (1, 2):
            n = len(CSV_CELLS) ** (2 * ncols)
            expected_csv += n
            for off, stride in pool.strided(n, 16):
                shards.append((ncols, off, stride, True))
        for l1 in range(0, 4):
            for l2 in range(0, 4):
                if l1 != l2:
                    n = len(CSV_CELLS) ** (l1 + l2)
                    expected_csv += n
                    for off, stride in pool.strided(n, 16 if n > 1000 else 1):
                        shards.append(("ragged", l1, l2, off, stride))
        res = pool.map_shards(_csv_shard, _rot(shards, ctx.seed))
        total.merge(res)
    finally:
        shutil.rmtree(SCRATCH, ignore_errors=True)
    if total.n["csv_files"] != expected_csv and not total.violation_count:
        total.error("read %d CSV files, expected %d" % (total.n["csv_files"], expected_csv))
        exhaustive = False
    if len(total.hist["csv_cell"]) < 3 and not total.violation_count:
        total.error("CSV check is vacuous")
    total.sample("csv", {"part": "csv", "rows": [[3, 6, 6], [5, 6, 0]], "decorate": False})

    traces = (
        total.n["vs_bfs_transitions"]
        + total.n["vs_nodedup_histories"]
        + total.n["disjoint_pairs"]
        + total.n["table_assignments"]
        + total.n["table_sequences"]
        + total.n["csv_files"]
    )
    cov = {
        "states": total.ndistinct("vs_states"),
        "transitions": total.n["vs_bfs_transitions"] + total.n["vs_nodedup_histories"],
        "traces_validated_against_impl": traces,
        "exhaustive": exhaustive and not total.errors,
        "bounds": {
            "valueset_universe": "0..6 + True",
            "valueset_alphabet_size": len(alpha),
            "valueset_constructor_forms": len(FORMS),
            "valueset_bfs": "to fixpoint (depth %d); states by depth %r" % (total.n["vs_bfs_depth"], [by_depth[d] for d in sorted(by_depth)]),
            "valueset_history_depth_without_dedup": nd_depth,
            "is_disjoint_pairs": "every reached state x the first %d reached states (BFS order), both argument orders%s" % (partner_limit, "" if partner_limit < n_states else " = all ordered pairs"),
            "table_columns_max": max_cols,
            "table_keys": list(KEYS) + [BOGUS_KEY + " (never constrained)"],
            "table_cell_alphabet": list(CELLS),
            "table_values": list(VALUES),
            "tables": expected_tables,
            "assignments_per_table": len(assignments()),
            "sequences_per_table": len(sequences()),
            "sequence_max_len": 3,
            "csv": "2 rows x 1..3 columns over %d cell forms (+ comment/blank-row decorated variants for 1..2 columns; + every ragged 2-row file with 0..3 cells per row, l1 != l2)" % len(CSV_CELLS),
            "csv_files": expected_csv,
        },
        "rule": "BFS over ValueSet operation histories with dedup on (_values,_ranges), oracle frozenset; all tables/assignments/sequences/CSV files of the stated shapes against models/setmodel.py",
    }
    return total, cov


def replay_case(case):
    part = case["part"]
    if part == "valueset":
        problems, _, _ = run_vs_history(_untuple_hist(case["history"]))
        return problems
    if part == "disjoint":
        return replay_disjoint(case)
    if part == "table":
        cols = [tuple(c) for c in case["columns"]]
        real, model = build_tables(cols)
        a = {str(k): v for k, v in case["assignment"].items()}
        return check_queries(real, model, a)
    if part == "sequence":
        cols = [tuple(c) for c in case["columns"]]
        real, model = build_tables(cols)
        seq = [(str(k), v) for k, v in case["sequence"]]
        hooks = _level_hooks()
        L = hooks[0]
        saved = list(L)
        try:
            del L[:]
            L.extend(real)
            pr, _ = check_sequence(real, model, seq, hooks)
        finally:
            del L[:]
            L.extend(saved)
        return pr
    if part == "csv":
        d = os.path.join(SCRATCH, "replay")
        os.makedirs(d, exist_ok=True)
        try:
            pr, _ = check_csv([list(r) for r in case["rows"]], bool(case["decorate"]), os.path.join(d, "t.csv"))
        finally:
            shutil.rmtree(SCRATCH, ignore_errors=True)
        return pr
    raise ValueError(part)
