"""C10 -- concatenated sequences are validated and decoded independently.

All lists (bounded length) over a pool of sequences; differential oracle: the
state reached after a prefix of other sequences vs. the initial state
(DESIGN.md section 6, C10).
"""
import itertools

import mc  # noqa
from mc import pool, vc2run
from mc.tally import Tally
from build import vc2build as B
from props import encfeat

PROPERTY = "C10"
LEVEL = "model_checking"
ASSUMPTIONS = [
    "level value tables are swapped for a permissive table (ordering patterns real) so that levels 1 and 66 can be used with tiny formats",
    "pool of 17 conformant and 16 non-conformant sequences (independent builder + real encoder; the non-conformant ones break rules at the start, in the middle and at the end of a sequence); all lists up to length 3 (quick) / 4 (thorough, reduced pool)",
]
M32 = 1 << 32


def sequence_pool():
    T = B.tiny_format
    hq2 = T()
    hq3 = T(major_version=3)
    ld1 = T(profile=B.PROFILE_LD, major_version=1)
    ld3 = T(profile=B.PROFILE_LD, major_version=3)
    fields = T(picture_coding_mode=1, frame_height=4)
    lvl1 = T(level=1)
    lvl66 = T(level=66)
    coeff = lambda sx, sy: {"qindex": 1, "coeffs": ([3 + sx, -2], [1], [-1])}  # noqa
    pool_ = []

    def add(name, units, ok=True):
        pool_.append((name, B.assemble(units), ok))

    add("ld-v1", B.simple_stream(ld1, 1))
    add("hq-v2-2pics", B.simple_stream(hq2, 2, slice_kw=coeff))
    add("hq-v3-frag", B.simple_stream(hq3, 2, fragments=1, first_picture_number=5))
    add("ld-v3-frag2", B.simple_stream(ld3, 1, fragments=2))
    add("hq-fields", B.simple_stream(fields, 2, first_picture_number=10))
    add("level1-pictures", B.simple_stream(lvl1, 1, extra=[B.padding(b"pp")]))
    add("level66-alternating", [B.seq_header(lvl66), B.picture(lvl66, 3), B.seq_header(lvl66), B.picture(lvl66, 4), B.end_of_sequence()])
    add("hq-v3-empty", [B.seq_header(hq3), B.end_of_sequence()])
    add("hq-wrap", B.simple_stream(hq2, 2, first_picture_number=M32 - 1))
    add("hq-aux-pad", [B.seq_header(hq2), B.auxiliary(b"abc"), B.picture(hq2, 0), B.padding(b""), B.end_of_sequence()])
    cf = encfeat.make_cf("c10-hq")
    add_raw = lambda name, data, ok=True: pool_.append((name, data, ok))  # noqa
    add_raw("enc-hq-lossy", encfeat.encode(cf, [encfeat.make_picture(cf, "noise", 100, 0)])[1])
    cf2 = encfeat.make_cf("c10-ld", profile=0, fragment_slice_count=1, picture_bytes=24)
    add_raw("enc-ld-frag", encfeat.encode(cf2, [encfeat.make_picture(cf2, "ramp", None, 0)])[1])
    # sequences on the same base video format that override different subsets of its defaults
    # (anything remembered per base format across sequences must not leak overrides)
    add("hq-10bit-custom-range", B.simple_stream(hq2.but(signal_range=("custom", 64, 876, 512, 896)), 1, slice_kw=coeff))
    add("hq-default-420", B.simple_stream(hq2.but(color_diff_format_index=None, frame_width=4, frame_height=4), 1, first_picture_number=9))
    add("hq-interlaced-tff", B.simple_stream(hq2.but(source_sampling=1, pixel_aspect_ratio=("preset", 2), frame_rate=("custom", 30, 1)), 1))
    add("base0-defaults-header-only", [B.seq_header(hq2.but(frame_width=None, clean_area=None, color_diff_format_index=None)), B.end_of_sequence()])
    add("base0-clean-area-only-header-only", [B.seq_header(hq2.but(frame_width=None, clean_area=(2, 2, 1, 1), color_diff_format_index=None)), B.end_of_sequence()])
    # non-conformant members
    add("bad-custom-dims-default-clean-area", [B.seq_header(hq2.but(clean_area=None)), B.end_of_sequence()], ok=False)
    add("bad-odd-fields", B.simple_stream(fields, 1), ok=False)
    add("bad-incomplete-fragmented", [B.seq_header(hq3), B.fragment_first(hq3, 0), B.fragment_slices(hq3, 0, 0, 1), B.end_of_sequence()], ok=False)
    add("bad-version-too-high", B.simple_stream(hq3, 1), ok=False)
    add("bad-last-ppo", [B.seq_header(hq2), B.picture(hq2, 0), B.end_of_sequence(ppo=("delta", 1))], ok=False)
    add("bad-second-picture-number", [B.seq_header(hq2), B.picture(hq2, 0), B.picture(hq2, 2), B.end_of_sequence()], ok=False)
    # violations located at the very *start* of a sequence (state that must not leak in from a predecessor)
    add("bad-starts-with-padding", [B.padding(b"")] + B.simple_stream(hq2, 1), ok=False)
    add("bad-starts-with-aux", [B.auxiliary(b"z")] + B.simple_stream(hq2, 1), ok=False)
    add("bad-starts-with-picture", [B.picture(hq2, 0), B.end_of_sequence()], ok=False)
    add("bad-first-ppo", [B.seq_header(hq2, ppo=13), B.picture(hq2, 0), B.end_of_sequence()], ok=False)
    add("bad-odd-first-field", B.simple_stream(fields, 2, first_picture_number=11), ok=False)
    add("bad-header-changed", [B.seq_header(hq2), B.picture(hq2, 0), B.seq_header(hq2.but(frame_rate=("preset", 3))), B.end_of_sequence()], ok=False)
    add("bad-slice-fragment-first", [B.seq_header(hq3), B.fragment_slices(hq3, 0, 0, 1), B.end_of_sequence()], ok=False)
    add("bad-ld-picture-in-hq", [B.seq_header(hq2), B.picture(ld1.but(major_version=2), 0), B.end_of_sequence()], ok=False)
    # a sequence whose very first byte is not the parse_info prefix: zero bytes, where a reader
    # could confuse "a byte of value 0" with "no byte"
    good = pool_[1][1]
    add_raw("bad-first-byte-zero", b"\x00" + good[1:], ok=False)
    add_raw("bad-zero-bytes", b"\x00" * 13, ok=False)
    return pool_


_POOL = None


def get_pool():
    global _POOL
    if _POOL is None:
        _POOL = sequence_pool()
    return _POOL


def run_alone(data):
    v = vc2run.validate(data, limits=False)
    return v.kind, (type(v.exc).__name__ if v.exc is not None else None), v.pictures


_ALONE = {}


def alone(i):
    if i not in _ALONE:
        _ALONE[i] = run_alone(get_pool()[i][1])
    return _ALONE[i]


def check_list(idx):
    p = get_pool()
    data = b"".join(p[i][1] for i in idx)
    kind, exc, pictures = run_alone(data)
    problems = []
    if kind not in ("accept", "reject"):
        return ["validator %s:%s on concatenation" % (kind, exc)], kind
    expect_pics = []
    expect_kind, expect_exc = "accept", None
    for i in idx:
        k, e, pics = alone(i)
        expect_pics.extend(pics)
        if k != "accept":
            expect_kind, expect_exc = k, e
            break
    if kind != expect_kind:
        problems.append("concatenation %s:%s but members alone predict %s:%s" % (kind, exc, expect_kind, expect_exc))
    elif exc != expect_exc:
        problems.append("concatenation fails with %s, the failing member alone fails with %s" % (exc, expect_exc))
    if not problems:
        if len(pictures) != len(expect_pics):
            problems.append("%d pictures output, members alone output %d" % (len(pictures), len(expect_pics)))
        else:
            for n, (a, b) in enumerate(zip(pictures, expect_pics)):
                if a != b:
                    problems.append("output picture %d differs from the member's own output" % n)
                    break
    return problems, kind


def all_lists(tier):
    p = get_pool()
    n = len(p)
    out = []
    if tier == "thorough":
        for L in (1, 2, 3):
            out.extend(itertools.product(range(n), repeat=L))
        names = [m[0] for m in p]
        small = [names.index(x) for x in ("ld-v1", "hq-v2-2pics", "hq-v3-frag", "hq-fields", "level66-alternating", "hq-v3-empty", "hq-wrap", "hq-10bit-custom-range", "base0-defaults-header-only", "bad-custom-dims-default-clean-area", "bad-odd-fields", "bad-incomplete-fragmented", "bad-version-too-high", "bad-starts-with-padding", "bad-odd-first-field")]
        out.extend(itertools.product(small, repeat=4))
    else:
        for L in (1, 2, 3):
            out.extend(itertools.product(range(n), repeat=L))
    return out


def _shard(arg):
    tier, w, n = arg
    t = Tally()
    with vc2run.permissive_levels():
        for idx in all_lists(tier)[w::n]:
            problems, kind = check_list(idx)
            t.count("lists")
            t.outcome("verdict", kind)
            names = [get_pool()[i][0] for i in idx]
            if problems:
                t.violation("%r: %s" % (names, problems[0]), {"list": list(idx), "names": names})
            else:
                t.distinct("outcomes", (kind, tuple(idx[: 1 + next((k for k, i in enumerate(idx) if not get_pool()[i][2]), len(idx))])))
                if len(idx) == 3:
                    t.sample(kind, names)
    return t


def run(ctx):
    total = Tally()
    # self-check of the pool (harness error if a member's own verdict is not as labelled)
    with vc2run.permissive_levels():
        for i, (name, data, ok) in enumerate(get_pool()):
            k, e, pics = run_alone(data)
            if (k == "accept") != ok:
                total.violation("sequence %s alone: built to be %s, validator says %s:%s" % (name, "conformant" if ok else "non-conformant", k, e), {"list": [i]})
    n = 64
    total.merge(pool.map_shards(_shard, [(ctx.tier, w, n) for w in range(n)]))
    lists = all_lists(ctx.tier)
    if total.n["lists"] != len(lists):
        total.error("evaluated %d of %d" % (total.n["lists"], len(lists)))
    cov = {
        "states": total.ndistinct("outcomes"),
        "transitions": total.n["lists"],
        "traces_validated_against_impl": total.n["lists"],
        "exhaustive": True,
        "bounds": {"pool": [p[0] for p in get_pool()], "max_list_length": 3 if ctx.quick else 4},
        "rule": "every list of pool sequences up to the length bound is concatenated and validated; verdict, error class and every output picture are compared with what the members produce alone (state reached after other sequences vs initial state); states = distinct (verdict, accepted-prefix) outcomes",
    }
    return total, cov


def replay_case(case):
    with vc2run.permissive_levels():
        return check_list(tuple(case["list"]))[0]
