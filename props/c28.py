"""C28 -- codec-features CSV reading either succeeds in-domain or explains.

Deviation-bounded enumeration (DESIGN.md section 6, C28): every CSV text that
differs from one of four seed files by one cell / key / row / column edit from a
fixed alphabet, every pair of cell edits within one column from a 5-element
alphabet, plus two tiny exhaustive grammars (all small grids over a 5-cell
alphabet, all short texts over a 6-character alphabet).

Oracle (models/codec_features_ref.py, written from the documentation):

1. the call returns or raises ``InvalidCodecFeaturesError`` -- nothing else;
2. a returned value passes the *domain predicate* (OrderedDict of CodecFeatures,
   enum members of the right types, ints at or above their minimums,
   ``picture_bytes is None`` <=> lossless, quantisation matrix shaped for the
   declared depths, unique names == keys, one configuration per non-empty
   column);
3. where the documentation decides, verdict and values agree with a reference
   reader of the documented format.
"""
import csv
import io
import itertools
import re
from string import ascii_uppercase

import mc
from mc import pool
from mc.tally import Tally
from models import codec_features_ref as R

PROPERTY = "C28"
LEVEL = "fault_enumeration"
ASSUMPTIONS = [
    "CSV text is handed to the reader as an open text stream; the main families use '\\n' / '\\r\\n' line ends and cells shorter than csv.field_size_limit(); a separate 'raw' family feeds oversized cells (131073 characters) and bare carriage returns through a stream without newline translation, checked only for 'returns or raises InvalidCodecFeaturesError' (these made csv.Error escape before the fix recorded in known_findings.json)",
    "deviation bound: 1 edit anywhere, 2 edits only within one column (quick: the 'minimal' column of the sample file)",
    "seed files: tests/sample_codec_features.csv, tests/sample_codec_features_invalid.csv, docs sample_codec_features.csv (read from /repo as data) and one two-column file built here (lossless; asymmetric + custom matrix, numeric aliases)",
    "the csv module (stdlib) is trusted to split text into cells for the reference",
    "where the documentation does not decide (booleans spelled other than TRUE/FALSE, columns without a name, a row given twice with different values) only parts 1 and 2 of the oracle apply",
]

SEED_FILES = [
    ("sample", "/repo/tests/sample_codec_features.csv"),
    ("invalid-sample", "/repo/tests/sample_codec_features_invalid.csv"),
    ("docs-sample", "/repo/docs/source/_static/user_guide/sample_codec_features.csv"),
]

BUILT_SEED = """\
# built by the C28 driver,,
name,lossless_hq,asym_ld
level,unconstrained,0
profile,high_quality,0
base_video_format,custom_format,12
picture_coding_mode,0,pictures_are_fields
frame_width,16,default
frame_height,8,default
color_diff_format_index,color_4_2_0,1
source_sampling,progressive,interlaced
top_field_first,FALSE,default
frame_rate_numer,30000,default
frame_rate_denom,1001,default
pixel_aspect_ratio_numer,1,12
pixel_aspect_ratio_denom,1,11
clean_width,16,default
clean_height,8,default
left_offset,0,default
top_offset,0,default
luma_offset,16,default
luma_excursion,219,default
color_diff_offset,128,default
color_diff_excursion,224,default
color_primaries_index,default,uhdtv
color_matrix_index,default,4
transfer_function_index,default,hybrid_log_gamma
wavelet_index,fidelity,1
wavelet_index_ho,fidelity,haar_with_shift
dwt_depth,2,1
dwt_depth_ho,0,2
slices_x,2,4
slices_y,1,2
lossless,TRUE,False
picture_bytes,,4096
fragment_slice_count,0,3
quantization_matrix,default,0 1 2 3 4 5
"""

HUGE = "1" + "0" * 30
CELL_ALPHABET = [
    "",
    "default",
    "0",
    "-1",
    "1",
    "1.5",
    "abc",
    "1e3",
    " 7 ",
    HUGE,
    "99",
    "TRUE",
    "FALSE",
    "0 1 2 3",
    "4 2 2 0 4 4 2",
    "3 1 1 1 9",
    "1 x 3 4",
    "-5 1 1 1",
]
PAIR_ALPHABET = ["", "default", "0", "-1", "abc"]
ODD_KEYS = ["{notes}", "{}", "{", "}", "{0}", "{0.x}", "%s", "%(a)s", "a{b}c", "\\N{x}", "{!r}", "{:>9999999999}"]
TINY_CELLS = ["name", "level", "x", "", "0"]
TINY_CHARS = ["a", ",", "\n", '"', "#", " "]


# ----------------------------------------------------------------------------
# Text <-> grid
# ----------------------------------------------------------------------------


def parse_grid(text):
    return [list(r) for r in csv.reader(io.StringIO(text))]


def render(grid, eol="\n"):
    f = io.StringIO()
    w = csv.writer(f, lineterminator=eol)
    for row in grid:
        w.writerow(row)
    return f.getvalue()


_SEEDS = None


def seeds():
    global _SEEDS
    if _SEEDS is None:
        out = []
        for name, path in SEED_FILES:
            with open(path) as f:
                out.append((name, parse_grid(f.read())))
        out.append(("built", parse_grid(BUILT_SEED)))
        _SEEDS = out
    return _SEEDS


def data_rows(grid):
    """Indices of rows that carry a key."""
    return [i for i, r in enumerate(grid) if r and r[0].strip() and not r[0].strip().startswith("#")]


def n_cols(grid):
    return max(len(r) for r in grid)


def copy_grid(grid):
    return [list(r) for r in grid]


# ----------------------------------------------------------------------------
# Mutation families.  Each returns a list of (origin, text).
# ----------------------------------------------------------------------------


def cell_replacements(grid, r, c):
    rows = data_rows(grid)
    orig = grid[r][c] if c < len(grid[r]) else ""
    k = rows.index(r)
    alpha = list(CELL_ALPHABET)
    wrong = orig.upper() if orig != orig.upper() else orig.lower()
    alpha.append(wrong)
    for other in (rows[k - 1], rows[(k + 1) % len(rows)]):
        alpha.append(grid[other][c] if c < len(grid[other]) else "")
    out = []
    for a in alpha:
        if a != orig and a not in out:
            out.append(a)
    return out


def fam_cell(grid, r):
    out = []
    for c in range(1, n_cols(grid)):
        for a in cell_replacements(grid, r, c):
            g = copy_grid(grid)
            while len(g[r]) <= c:
                g[r].append("")
            g[r][c] = a
            out.append(("cell r%d c%d := %r" % (r, c, a), render(g)))
    return out


def size_cell(grid, r):
    return sum(len(cell_replacements(grid, r, c)) for c in range(1, n_cols(grid)))


def key_replacements(grid, r):
    key = grid[r][0]
    alpha = ["", "#" + key, "bogus_row", key.upper(), " " + key + " "] + list(R.ALL_ROWS)
    out = []
    for a in alpha:
        if a != key and a not in out:
            out.append(a)
    return out


def fam_key(grid, r):
    out = []
    for a in key_replacements(grid, r):
        g = copy_grid(grid)
        g[r][0] = a
        out.append(("key r%d := %r" % (r, a), render(g)))
    return out


def size_key(grid, r):
    return len(key_replacements(grid, r))


ROW_OPS = ["delete", "duplicate", "move-to-end", "swap-next", "trailing-comma", "extra-cell", "drop-last-cell"]


def fam_row(grid, r):
    out = []
    for op in ROW_OPS:
        g = copy_grid(grid)
        if op == "delete":
            del g[r]
        elif op == "duplicate":
            g.insert(r + 1, list(g[r]))
        elif op == "move-to-end":
            g.append(g.pop(r))
        elif op == "swap-next":
            j = (r + 1) % len(g)
            g[r], g[j] = g[j], g[r]
        elif op == "trailing-comma":
            g[r].append("")
        elif op == "extra-cell":
            g[r].append("x")
        elif op == "drop-last-cell":
            if len(g[r]) > 1:
                g[r].pop()
            else:
                g[r] = []
        out.append(("row r%d %s" % (r, op), render(g)))
    return out


def size_row(grid, r):
    return len(ROW_OPS)


def name_row(grid):
    for i in data_rows(grid):
        if grid[i][0].strip() == "name":
            return i
    raise ValueError("seed without a name row")


def fam_file(grid, _key):
    out = []
    nc = n_cols(grid)
    nr = name_row(grid)
    rows = data_rows(grid)
    # trailing commas / line ends / blank lines
    for k in (1, 2):
        g = [list(r) + [""] * k for r in grid]
        out.append(("all rows +%d trailing commas" % k, render(g)))
    out.append(("crlf line ends", render(grid, eol="\r\n")))
    out.append(("no final newline", render(grid).rstrip("\n")))
    out.append(("blank lines appended", render(grid) + "\n\n"))
    out.append(("blank first line", "\n" + render(grid)))
    out.append(("unchanged", render(grid)))
    # extra unknown row
    for pos in (0, rows[len(rows) // 2], len(grid)):
        g = copy_grid(grid)
        g.insert(pos, ["unknown_row"] + ["1"] * (nc - 1))
        out.append(("unknown row in every column at %d" % pos, render(g)))
        for c in range(1, nc):
            g = copy_grid(grid)
            g.insert(pos, ["unknown_row"] + ["1" if j == c else "" for j in range(1, nc)])
            out.append(("unknown row in column %d at %d" % (c, pos), render(g)))
    # unknown rows whose key contains characters special to str.format / % / csv
    for key in ODD_KEYS:
        g = copy_grid(grid)
        g.append([key] + ["1"] * (nc - 1))
        out.append(("unknown row %r appended" % key, render(g)))
        g = copy_grid(grid)
        g.append([key, "1"])
        out.append(("unknown row %r in column 1 appended" % key, render(g)))
    # column names
    for j in range(1, nc):
        for k in range(1, nc):
            if j != k:
                # an explicit name equal to the default name of an unnamed column
                g = copy_grid(grid)
                while len(g[nr]) < nc:
                    g[nr].append("")
                g[nr][j] = "column_" + ascii_uppercase[k]
                g[nr][k] = ""
                out.append(("name c%d := default name of unnamed c%d" % (j, k), render(g)))
                g = copy_grid(grid)
                g[nr][j] = g[nr][k]
                out.append(("name c%d := name c%d" % (j, k), render(g)))
                g = copy_grid(grid)
                for row in g:
                    if len(row) > max(j, k):
                        row[j], row[k] = row[k], row[j]
                out.append(("swap columns %d %d" % (j, k), render(g)))
        g = copy_grid(grid)
        g[nr][j] = "  " + g[nr][j] + "  "
        out.append(("name c%d padded" % j, render(g)))
        g = copy_grid(grid)
        for row in g:
            if len(row) > j:
                del row[j]
        out.append(("delete column %d" % j, render(g)))
        g = copy_grid(grid)
        for row in g:
            while len(row) < nc:
                row.append("")
            row.append(row[j])
        out.append(("duplicate column %d" % j, render(g)))
        g[nr][nc] = "a_new_name"
        out.append(("duplicate column %d renamed" % j, render(g)))
        g = copy_grid(grid)
        for i in rows:
            if i != nr and len(g[i]) > j:
                g[i][j] = ""
        out.append(("column %d only a name" % j, render(g)))
        g = copy_grid(grid)
        for i in rows:
            if len(g[i]) > j:
                g[i][j] = ""
        out.append(("column %d blanked" % j, render(g)))
    return out


def size_file(grid, _key):
    nc = n_cols(grid)
    return 7 + 3 * (1 + (nc - 1)) + 2 * len(ODD_KEYS) + (nc - 1) * (nc - 2) * 3 + (nc - 1) * 6


def fam_pair(grid, key):
    c, r1 = key
    rows = data_rows(grid)
    out = []
    for r2 in rows[rows.index(r1) + 1 :]:
        for a in PAIR_ALPHABET:
            for b in PAIR_ALPHABET:
                g = copy_grid(grid)
                for r, v in ((r1, a), (r2, b)):
                    while len(g[r]) <= c:
                        g[r].append("")
                    g[r][c] = v
                out.append(("pair c%d r%d := %r, r%d := %r" % (c, r1, a, r2, b), render(g)))
    return out


def size_pair(grid, key):
    c, r1 = key
    rows = data_rows(grid)
    return (len(rows) - 1 - rows.index(r1)) * len(PAIR_ALPHABET) ** 2


FAMILIES = {
    "cell": (fam_cell, size_cell),
    "key": (fam_key, size_key),
    "row": (fam_row, size_row),
    "file": (fam_file, size_file),
    "pair": (fam_pair, size_pair),
}


def tiny_grids(first_cell, shape):
    nr, nc = shape
    out = []
    for rest in itertools.product(TINY_CELLS, repeat=nr * nc - 1):
        cells = (first_cell,) + rest
        g = [list(cells[i * nc : (i + 1) * nc]) for i in range(nr)]
        out.append(("tiny grid %dx%d" % (nr, nc), "\n".join(",".join(r) for r in g) + "\n"))
    return out


def tiny_texts(prefix, maxlen):
    out = []
    for n in range(0, maxlen - len(prefix) + 1):
        for rest in itertools.product(TINY_CHARS, repeat=n):
            out.append(("tiny text", prefix + "".join(rest)))
    return out


# ----------------------------------------------------------------------------
# The oracle
# ----------------------------------------------------------------------------


def error_class(msg):
    m = re.match(r"^(Invalid entry for '[^']*'|Missing entry for '[^']*'|Name |Unrecognised row|Entry provided for '[^']*')", msg)
    return m.group(1) if m else "other: " + re.sub(r"'[^']*'", "'_'", msg)[:60]


def check_text(text):
    """Returns (problems, outcome class, plain outcome for comparisons)."""
    from vc2_conformance.codec_features import read_codec_features_csv, InvalidCodecFeaturesError

    grid = parse_grid(text)
    ref = R.reference_read(grid)
    ncol = R.n_nonempty_columns(grid)
    try:
        result = pool.with_watchdog(20, read_codec_features_csv, io.StringIO(text))
    except InvalidCodecFeaturesError as e:
        msg = str(e)
        cls = "error: " + error_class(msg)
        if ref[0] == "ok":
            return (
                ["documented-valid file rejected: %s" % msg],
                cls,
                None,
            )
        return [], cls + ("" if ref[0] == "error" else " (unspecified)"), ("error",)
    except pool.Watchdog:
        raise
    except BaseException as e:  # noqa
        return ["raised %s: %s" % (type(e).__name__, e)], "crash", None
    problems = R.domain_problems(result, ncol)
    cls = "ok: %d configurations" % len(result) if type(result) is R.OrderedDict else "ok: ?"
    if problems:
        return ["out of domain: " + problems[0]] + problems[1:], cls, None
    got = [R.plain_config(cf) for cf in result.values()]
    if ref[0] == "error":
        problems.append("accepted although the documentation makes it invalid (%s)" % ref[1])
    elif ref[0] == "ok":
        want = [R.plain_reference(c) for c in ref[1]]
        if got != want:
            for g, w in zip(got, want):
                if g != w:
                    diff = [(a, b) for a, b in zip(g, w) if a != b]
                    problems.append("parsed value differs from the documented meaning: got %r, expected %r" % diff[0])
                    break
            else:
                problems.append("parsed %d configurations, expected %d" % (len(got), len(want)))
    else:
        cls += " (unspecified)"
    return problems, cls, ("ok", got)


# ----------------------------------------------------------------------------
# Shards
# ----------------------------------------------------------------------------


def shard_items(shard):
    kind = shard[0]
    if kind == "seed":
        _, si, fam, key = shard
        name, grid = seeds()[si]
        key = tuple(key) if isinstance(key, list) else key
        return [("%s: %s" % (name, o), t) for o, t in FAMILIES[fam][0](grid, key)]
    if kind == "tiny-grid":
        return tiny_grids(shard[1], tuple(shard[2]))
    if kind == "tiny-text":
        return tiny_texts(shard[1], shard[2])
    raise ValueError(shard)


def shard_size(shard):
    kind = shard[0]
    if kind == "seed":
        _, si, fam, key = shard
        return FAMILIES[fam][1](seeds()[si][1], key)
    if kind == "tiny-grid":
        nr, nc = shard[2]
        return len(TINY_CELLS) ** (nr * nc - 1)
    if kind == "tiny-text":
        n = shard[2] - len(shard[1])
        return sum(len(TINY_CHARS) ** k for k in range(0, n + 1))
    raise ValueError(shard)


SAMPLE_ROW = 29  # the dwt_depth_ho row of the built seed
_SEED_OUTCOME = {}


def _seed_outcome(si):
    if si not in _SEED_OUTCOME:
        _SEED_OUTCOME[si] = check_text(render(seeds()[si][1]))[2]
    return _SEED_OUTCOME[si]


def _shard(shard):
    t = Tally()
    for origin, text in shard_items(shard):
        try:
            problems, cls, outcome = check_text(text)
        except pool.Watchdog:
            t.error("no verdict within 20 s for %r" % (origin,))
            continue
        t.count("evaluations")
        t.count("evaluations_" + (shard[2] if shard[0] == "seed" else shard[0]))
        t.outcome("outcome", cls if not problems else "VIOLATION")
        if problems:
            t.violation(problems[0], {"origin": origin, "text": text})
            continue
        if shard[0] == "seed":
            nontrivial = outcome != _seed_outcome(shard[1])
        else:
            nontrivial = outcome != ("ok", [])
        if nontrivial:
            t.distinct("nontrivial", text)
        t.distinct("texts", text)
        if shard[:3] == ("seed", 3, "cell") and shard[3] == SAMPLE_ROW:
            # one shard only, so the samples do not depend on scheduling
            kind = "rejected" if cls.startswith("error") else "accepted"
            if not t.samples.get(kind):
                t.sample(kind, {"origin": origin, "text": text})
    return t


def all_shards(quick):
    shards = []
    for si, (name, grid) in enumerate(seeds()):
        rows = data_rows(grid)
        for r in rows:
            shards.append(("seed", si, "cell", r))
            shards.append(("seed", si, "key", r))
        for r in range(len(grid)):
            shards.append(("seed", si, "row", r))
        shards.append(("seed", si, "file", 0))
        nr = name_row(grid)
        for c in range(1, n_cols(grid)):
            if quick and not (name == "sample" and grid[nr][c] == "minimal"):
                continue
            for r1 in rows[:-1]:
                shards.append(("seed", si, "pair", (c, r1)))
    for shape in [(1, 1), (1, 2), (1, 3), (2, 1), (2, 2), (2, 3), (3, 2)] if not quick else [(1, 1), (1, 2), (1, 3), (2, 1), (2, 2), (2, 3)]:
        for first in TINY_CELLS:
            shards.append(("tiny-grid", first, shape))
    maxlen = 6 if quick else 8
    shards.append(("tiny-text", "", 1))
    for p in itertools.product(TINY_CHARS, repeat=2):
        shards.append(("tiny-text", "".join(p), maxlen))
    return shards


def run(ctx):
    shards = all_shards(ctx.quick)
    expected = sum(shard_size(s) for s in shards)
    k = ctx.seed % len(shards)
    order = shards[k:] + shards[:k]
    # cheapest-last ordering is irrelevant for the verdict; keep rotation only
    total = pool.map_shards(_shard, order)
    if total.n["evaluations"] != expected and not total.errors:
        total.error("evaluated %d texts, the space has %d" % (total.n["evaluations"], expected))
    if not total.violation_count:
        oc = total.hist["outcome"]
        n_err_classes = sum(1 for c in oc if c.startswith("error"))
        n_ok = sum(v for c, v in oc.items() if c.startswith("ok") and not c.startswith("ok: 0"))
        n_decided = sum(v for c, v in oc.items() if "(unspecified)" not in c)
        if n_err_classes < 20 or n_ok < 100:
            total.error("vacuous: %d rejection classes, %d accepted non-empty files" % (n_err_classes, n_ok))
        if n_decided * 2 < total.n["evaluations"]:
            total.error("vacuous: the documentation decides only %d of %d files" % (n_decided, total.n["evaluations"]))
    for kind, name, r, c, text in raw_texts():
        total.count("raw_texts")
        for pr in check_raw(text):
            total.violation("raw text %s (%s row %d col %d): %s" % (kind, name, r, c, pr), {"raw": [kind, name, r, c]})
    for key, text in cross_column_texts():
        total.count("cross_column_texts")
        problems, cls, _ = check_text(text)
        total.outcome("cross_column", cls.split(":")[0])
        if problems:
            total.violation("cross-column file %r: %s" % (key, problems[0]), {"origin": "cross-column", "text": text})
    total.sample("tiny", {"origin": "tiny grid 2x2", "text": "name,x\nlevel,0\n"})
    sizes = {}
    for s in shards:
        fam = s[2] if s[0] == "seed" else s[0]
        sizes[fam] = sizes.get(fam, 0) + shard_size(s)
    cov = {
        "evaluations": total.n["evaluations"],
        "distinct_nontrivial": total.ndistinct("nontrivial"),
        "rule": "distinct CSV texts whose outcome (rejection, or the parsed configurations) differs from that of the unmutated seed file; for the tiny grammars: anything but an empty result",
        "exhaustive": total.n["evaluations"] == expected and not total.errors,
        "bounds": {
            "seeds": [n for n, _ in seeds()],
            "one_deviation": "every data cell x %d-value alphabet (+ wrong case, + neighbouring rows' values); every key cell x {empty, commented, unknown, upper case, padded, every other documented key}; every row x %s; file/column edits"
            % (len(CELL_ALPHABET), ROW_OPS),
            "two_deviations": "all pairs of rows within one column x %r squared; columns: %s" % (PAIR_ALPHABET, "sample/minimal" if ctx.quick else "every column of every seed"),
            "tiny_grids": "all grids up to %s over %r" % ("2x3" if ctx.quick else "2x3 and 3x2", TINY_CELLS),
            "tiny_texts": "all texts of length <= %d over %r" % (6 if ctx.quick else 8, TINY_CHARS),
            "family_sizes": sizes,
            "space_size": expected,
            "distinct_texts": total.ndistinct("texts"),
        },
    }
    return total, cov


def raw_texts():
    """Texts outside what the csv module tokenises normally: oversized fields, bare CRs."""
    out = []
    big = "9" * 131073
    for name, grid in seeds():
        rows = data_rows(grid)
        for r in rows[:6] + rows[-2:]:
            for c in range(1, min(3, len(grid[r]))):
                g = copy_grid(grid)
                g[r][c] = big
                out.append(("big-cell", name, r, c, render(g)))
                g = copy_grid(grid)
                g[r][c] = "a\rb"
                out.append(("bare-cr", name, r, c, render(g)))
        out.append(("big-key", name, 0, 0, big + ",x\n" + render(grid)))
    out.append(("tiny-big", "-", 0, 0, "name," + big + "\n"))
    out.append(("tiny-cr", "-", 0, 0, "name,a\rb\n"))
    return out


def cross_column_texts():
    """Two-column files built from the sample's 'minimal' column in which each column has its own
    transform depths and quantisation-matrix text: a value shared between columns must be
    interpreted per column."""
    name, grid = seeds()[0]
    keycol = 0
    src = None
    for r in data_rows(grid):
        if grid[r][0].strip() == "name":
            for c in range(1, len(grid[r])):
                if grid[r][c].strip() == "minimal":
                    src = c
    if src is None:
        return []
    depths = [(1, 0), (2, 0), (0, 1), (0, 3), (1, 1)]
    mats = ["default", "4 2 2 0", "1 2 3 4", "1 2 3 4 5 6 7", "0 0"]
    opts = [(d, m) for d in depths for m in mats]
    out = []
    for a in opts:
        for b in opts:
            g = []
            for row in grid:
                if not row:
                    g.append([])
                    continue
                cell = row[src] if src < len(row) else ""
                g.append([row[0], cell, cell])
            have_qm = False
            for r in data_rows(g):
                k = g[r][0].strip()
                for ci, (d, m) in ((1, a), (2, b)):
                    if k == "name":
                        g[r][ci] = "col%d" % ci
                    elif k == "dwt_depth":
                        g[r][ci] = str(d[0])
                    elif k == "dwt_depth_ho":
                        g[r][ci] = str(d[1])
                    elif k == "quantization_matrix":
                        g[r][ci] = m
                        have_qm = True
            if not have_qm:
                g.append(["quantization_matrix", a[1], b[1]])
            out.append(((a, b), render(g)))
    return out


def check_raw(text):
    from vc2_conformance.codec_features import read_codec_features_csv, InvalidCodecFeaturesError

    try:
        pool.with_watchdog(30, read_codec_features_csv, io.StringIO(text, newline=""))
        return []
    except InvalidCodecFeaturesError:
        return []
    except pool.Watchdog:
        return ["no result within 30 s"]
    except BaseException as e:  # noqa
        return ["raised %s: %s" % (type(e).__name__, str(e)[:100])]


def replay_case(case):
    if "raw" in case:
        kind, name, r, c = case["raw"]
        for k, n, rr, cc, text in raw_texts():
            if (k, n, rr, cc) == (kind, name, r, c):
                return check_raw(text)
        return []
    problems, _cls, _ = check_text(case["text"])
    return problems
