"""C02 -- the validator terminates with a verdict on any byte string.

Deviation-bounded fault enumeration on the real parse_stream plus the
reporting methods of every raised ConformanceError (DESIGN.md section 6, C02).
"""
import textwrap

import mc  # noqa
from mc import pool, vc2run
from mc.tally import Tally
from props import corpus

PROPERTY = "C02"
LEVEL = "fault_enumeration"
ASSUMPTIONS = [
    "resource bound: luma area <= 64x64, dimensions <= 256, depths <= 32 bits, dwt_depth+dwt_depth_ho <= 6, <= 256 slices; streams above it are set aside (counted as out_of_scope)",
    "deviation bound: 0, 1 and (header/parse_info/first bytes only) 2 deviations from 16 builder seeds + real-encoder seeds; all byte strings of length <= 2",
    "per-execution horizon 20 s (watchdog expiry counts as a violation: no verdict)",
]
HORIZON = 20.0
MIN_ERROR_CLASSES = 50


ORDERS = [("explain", "offset", "hint"), ("explain", "hint", "offset"), ("offset", "explain", "hint"), ("offset", "hint", "explain"), ("hint", "explain", "offset"), ("hint", "offset", "explain")]


def check_reporting(exc, state, order=0):
    """The three reporting methods + the formatting the validator script applies.  The methods
    are independent queries on the error: they are called in the order ORDERS[order] (the order
    is chosen per case, so every order is exercised on every kind of error across the corpus)."""
    from vc2_conformance.string_utils import wrap_paragraphs
    from vc2_conformance.bitstream.io import to_bit_offset
    from vc2_conformance.decoder import tell

    problems = []
    got = {"offset": None, "hint": None}

    def do_explain():
        try:
            text = exc.explain()
            summary, _, details = wrap_paragraphs(text).partition("\n")
            if not summary.strip():
                problems.append("empty explanation summary")
            str(exc)
        except Exception as e:  # noqa
            problems.append("explain() failed: %s: %s" % (type(e).__name__, e))

    def do_offset():
        try:
            offset = exc.offending_offset()
            if offset is None:
                offset = to_bit_offset(*tell(state))
            if not isinstance(offset, int) or offset < 0:
                problems.append("offending offset %r is not a non-negative int" % (offset,))
            got["offset"] = offset
        except Exception as e:  # noqa
            problems.append("offending_offset() failed: %s: %s" % (type(e).__name__, e))

    def do_hint():
        try:
            got["hint"] = exc.bitstream_viewer_hint()
        except Exception as e:  # noqa
            problems.append("bitstream_viewer_hint() failed: %s: %s" % (type(e).__name__, e))

    steps = {"explain": do_explain, "offset": do_offset, "hint": do_hint}
    for name in ORDERS[order % len(ORDERS)]:
        steps[name]()
    if problems:
        problems = ["%s (methods called in the order %s)" % (problems[0], ", ".join(ORDERS[order % len(ORDERS)]))] + problems[1:]
    if got["hint"] is not None:
        try:
            hint = textwrap.dedent(got["hint"]).strip().format(cmd="vc2-bitstream-viewer", file="f.vc2", offset=got["offset"])
            if not hint:
                problems.append("empty viewer hint")
        except Exception as e:  # noqa
            problems.append("bitstream_viewer_hint() failed: %s: %s" % (type(e).__name__, e))
    return problems, got["offset"]


def run_case(case):
    """Returns (label, problems, offset)."""
    data = corpus.materialise(case)
    try:
        v = pool.with_watchdog(HORIZON, vc2run.validate, data, True, False)
    except pool.Watchdog:
        return "timeout", ["no verdict within %.0f s" % HORIZON], None
    if v.kind == "accept":
        return "accept", [], None
    if v.kind == "oos":
        return "oos", [], None
    if v.kind == "crash":
        import traceback

        tb = traceback.extract_tb(v.exc.__traceback__)
        where = "%s:%d" % (tb[-1].filename.split("/")[-1], tb[-1].lineno) if tb else "?"
        return v.label, ["validator raised %s: %s at %s" % (type(v.exc).__name__, v.exc, where)], None
    from mc.tally import stable_hash

    order = stable_hash(case)[0] % len(ORDERS)
    problems, offset = check_reporting(v.exc, v.state, order)
    return v.label, problems, offset


def _shard(arg):
    tier, w, n = arg
    cases = corpus.enumerate_cases(tier)
    t = Tally()
    for case in cases[w::n]:
        label, problems, offset = run_case(case)
        t.count("executions")
        t.count("kind:" + case[1])
        t.outcome("verdict", label)
        if label.startswith("reject:"):
            t.distinct("reject_sites", (label, offset))
        elif label == "accept" and case[1] != "id":
            t.distinct("accepted_mutants", case)
        if problems and label.startswith("reject:") and all("Exceeds the limit (4300 digits)" in p for p in problems):
            t.known_finding("F12", {"case": case, "error": label})
        elif problems:
            t.violation(problems[0], {"case": case})
        elif label.startswith("reject:"):
            t.sample(label, {"case": case})
    return t


def run(ctx):
    tier = ctx.tier
    n = 64
    order = list(range(n))
    r = ctx.seed % n
    order = order[r:] + order[:r]
    total = pool.map_shards(_shard, [(tier, w, n) for w in order])
    ncases = len(corpus.enumerate_cases(tier))
    classes = [k for k in total.hist["verdict"] if k.startswith("reject:")]
    if total.n["executions"] != ncases:
        total.error("evaluated %d of %d cases" % (total.n["executions"], ncases))
    if len(classes) < MIN_ERROR_CLASSES and not total.violation_count:
        total.error("vacuous: only %d distinct ConformanceError classes reached" % len(classes))
    samples = total.all_samples(6) or [{"case": (0, "id")}]
    cov = {
        "evaluations": total.n["executions"],
        "distinct_nontrivial": total.ndistinct("reject_sites") + total.ndistinct("accepted_mutants"),
        "rule": "every case of the stated deviation sets (see bounds) is materialised from the independent builder and run through the real validator; non-trivial = distinct (ConformanceError class, reported bit offset) pairs plus distinct accepted mutants",
        "exhaustive": total.n["executions"] == ncases,
        "bounds": {
            "seeds": [s[0] for s in corpus.seeds()],
            "encoder_seeds": [s[0] for s in corpus.encoder_seed_bytes()],
            "byte_substitution_values": "all 255" if tier == "thorough" else "8 bit flips + 00 + ff + +1 + -1",
            "deviations": "0 (seeds, all truncations), 1 (byte sub/del/ins, parse code 0-255, parse-info offsets, field-aware re-encoding of every coded field), 2 (pairs of header/parse-info field substitutions; pairs of bit flips in the first %d bytes)" % (40 if tier == "thorough" else 24),
            "short_strings": "all byte strings of length <= 2; all 13-byte parse_info with code 0-255 x npo {0,12,13,14} x ppo {0,13}",
        },
        "conformance_error_classes_reached": len(classes),
        "out_of_scope": total.hist["verdict"].get("oos", 0),
        "samples": samples,
    }
    return total, cov


def replay_case(case):
    c = case["case"]
    c = tuple(tuple(x) if isinstance(x, list) else x for x in c)
    label, problems, offset = run_case(c)
    return problems
