"""C03 -- encoder output is always a conformant stream in the requested format.

Exhaustive configuration products through make_sequence ->
autofill_and_serialise_stream -> real validator (DESIGN.md section 6, C03).
"""
import mc  # noqa
from mc import pool, vc2run
from mc.tally import Tally
from props import encfeat, encspace

PROPERTY = "C03"
LEVEL = "exploration"
ASSUMPTIONS = [
    "small pictures (<= 12x8); each listed product (core, G1..G6) is enumerated completely, their global cross product is not",
    "a typed refusal (UnsatisfiableCodecFeaturesError subclass) is an allowed outcome but must not be the outcome of most configurations",
    "decoded video parameters are compared with the CodecFeatures' video_parameters on all fields",
]
M32 = 1 << 32


def all_configs(tier):
    return encspace.core(tier) + [(g, c) for g, c in encspace.groups(tier)]


def run_config(group, cfg):
    """Returns (outcome label, problems)."""
    from vc2_conformance.encoder.exceptions import UnsatisfiableCodecFeaturesError

    kw, opts = encspace.split(cfg)
    try:
        cf = encfeat.make_cf(**kw)
    except Exception as e:  # noqa
        return "harness", ["could not build CodecFeatures: %r" % (e,)]
    n = encfeat.n_pictures_for(cf, opts["frames"])
    first = opts["first_pic_num"]
    pics = [encfeat.make_picture(cf, opts["content"], None if first is None else (first + k) % M32, k) for k in range(n)]
    try:
        seq, data = encfeat.encode(cf, pics)
    except UnsatisfiableCodecFeaturesError as e:
        return "refused:" + type(e).__name__, []
    except Exception as e:  # noqa
        import traceback

        return "crash", ["encoder raised %s: %s (%s)" % (type(e).__name__, e, traceback.format_exc().splitlines()[-3].strip())]
    v = vc2run.validate(data, limits=False)
    if v.kind != "accept":
        return "rejected", ["validator %s: %s" % (v.label, str(v.exc)[:200])]
    problems = []
    if len(v.pictures) != n:
        problems.append("decoded %d pictures for %d input pictures" % (len(v.pictures), n))
    want_vp = dict(cf["video_parameters"])
    for i, (pic, vp, pcm) in enumerate(v.pictures):
        if vp != want_vp:
            diff = {k: (vp.get(k), want_vp.get(k)) for k in set(vp) | set(want_vp) if vp.get(k) != want_vp.get(k)}
            problems.append("picture %d: decoded video parameters differ: %r" % (i, diff))
            break
        if pcm != int(cf["picture_coding_mode"]):
            problems.append("picture %d: picture coding mode %r" % (i, pcm))
            break
        want_pn = (first + i) % M32 if first is not None else i
        if pic["pic_num"] != want_pn:
            problems.append("picture %d: picture number %d, expected %d" % (i, pic["pic_num"], want_pn))
            break
        (w, h), (cw, ch), ld, cd = encfeat.picture_geometry(cf)
        if (len(pic["Y"]), len(pic["Y"][0])) != (h, w) or (len(pic["C1"]), len(pic["C1"][0])) != (ch, cw):
            problems.append("picture %d: decoded dimensions wrong" % i)
            break
    return "ok", problems


def _shard(arg):
    tier, w, n = arg
    t = Tally()
    cfgs = all_configs(tier)
    for i in range(w, len(cfgs), n):
        group, cfg = cfgs[i]
        label, problems = run_config(group, cfg)
        t.count("configs")
        t.count("group:" + group)
        t.outcome("outcome", label)
        t.outcome("outcome:" + group, label.split(":")[0])
        if label == "ok" and not problems:
            t.distinct("accepted", sorted(cfg.items(), key=str))
            t.sample("ok:" + group, cfg)
        if problems:
            t.violation("%s %r: %s" % (group, cfg, problems[0]), {"group": group, "config": cfg})
    return t


def run(ctx):
    n = 64
    order = list(range(n))
    r = ctx.seed % n
    total = pool.map_shards(_shard, [(ctx.tier, w, n) for w in order[r:] + order[:r]])
    cfgs = all_configs(ctx.tier)
    if total.n["configs"] != len(cfgs):
        total.error("evaluated %d of %d" % (total.n["configs"], len(cfgs)))
    ok = total.hist["outcome"].get("ok", 0)
    if ok * 100 < 60 * len(cfgs) and not total.violation_count:
        total.error("vacuous: only %d of %d configurations were encoded" % (ok, len(cfgs)))
    sizes = {k[6:]: v for k, v in total.n.items() if k.startswith("group:")}
    cov = {
        "evaluations": total.n["configs"],
        "distinct_nontrivial": total.ndistinct("accepted"),
        "rule": "every configuration of each listed product is encoded with the real encoder, serialised with automatic field filling, validated and decoded by the real validator; non-trivial = distinct configurations that were encoded, accepted and whose decoded parameters/numbers were compared",
        "exhaustive": total.n["configs"] == len(cfgs),
        "bounds": {"product_sizes": sizes, "wavelet_pairs": 49 if ctx.tier == "thorough" else 13, "global_cross_product": "not covered"},
    }
    return total, cov


def replay_case(case):
    return run_config(case["group"], case["config"])[1]
