"""C03 -- encoder output is always a conformant stream in the requested format.

Exhaustive configuration products through make_sequence ->
autofill_and_serialise_stream -> real validator (DESIGN.md section 6, C03).
"""
import mc  # noqa
from mc import pool, vc2run
from mc.tally import Tally
from props import encfeat, encspace

PROPERTY = "C03"
LEVEL = "exploration"
ASSUMPTIONS = [
    "small pictures (<= 12x8); each listed product (core, G1..G6) is enumerated completely, their global cross product is not",
    "a typed refusal (UnsatisfiableCodecFeaturesError subclass) is an allowed outcome but must not be the outcome of most configurations",
    "decoded video parameters are compared with the CodecFeatures' video_parameters on all fields",
]
M32 = 1 << 32


def all_configs(tier):
    return encspace.core(tier) + [(g, c) for g, c in encspace.groups(tier)]


def run_config(group, cfg, reuse=None):
    """Returns (outcome label, problems).  reuse: a CodecFeatures object (and its nested
    VideoParameters) to be edited IN PLACE to this configuration and used for the encode."""
    from vc2_conformance.encoder.exceptions import UnsatisfiableCodecFeaturesError

    kw, opts = encspace.split(cfg)
    try:
        cf = encfeat.make_cf(**kw)
    except Exception as e:  # noqa
        return "harness", ["could not build CodecFeatures: %r" % (e,)]
    if reuse is not None:
        for k in cf:
            if k == "video_parameters":
                for k2 in cf[k]:
                    reuse[k][k2] = cf[k][k2]
            else:
                reuse[k] = cf[k]
        cf = reuse
    n = encfeat.n_pictures_for(cf, opts["frames"])
    first = opts["first_pic_num"]
    pics = [encfeat.make_picture(cf, opts["content"], None if first is None else (first + k) % M32, k) for k in range(n)]
    try:
        seq, data = encfeat.encode(cf, pics)
    except UnsatisfiableCodecFeaturesError as e:
        return "refused:" + type(e).__name__, []
    except Exception as e:  # noqa
        import traceback

        return "crash", ["encoder raised %s: %s (%s)" % (type(e).__name__, e, traceback.format_exc().splitlines()[-3].strip())]
    v = vc2run.validate(data, limits=False)
    if v.kind != "accept":
        return "rejected", ["validator %s: %s" % (v.label, str(v.exc)[:200])]
    problems = []
    if len(v.pictures) != n:
        problems.append("decoded %d pictures for %d input pictures" % (len(v.pictures), n))
    want_vp = dict(cf["video_parameters"])
    for i, (pic, vp, pcm) in enumerate(v.pictures):
        if vp != want_vp:
            diff = {k: (vp.get(k), want_vp.get(k)) for k in set(vp) | set(want_vp) if vp.get(k) != want_vp.get(k)}
            problems.append("picture %d: decoded video parameters differ: %r" % (i, diff))
            break
        if pcm != int(cf["picture_coding_mode"]):
            problems.append("picture %d: picture coding mode %r" % (i, pcm))
            break
        want_pn = (first + i) % M32 if first is not None else i
        if pic["pic_num"] != want_pn:
            problems.append("picture %d: picture number %d, expected %d" % (i, pic["pic_num"], want_pn))
            break
        (w, h), (cw, ch), ld, cd = encfeat.picture_geometry(cf)
        if (len(pic["Y"]), len(pic["Y"][0])) != (h, w) or (len(pic["C1"]), len(pic["C1"][0])) != (ch, cw):
            problems.append("picture %d: decoded dimensions wrong" % i)
            break
    return "ok", problems


# -- one CodecFeatures object edited in place between encodes ---------------------------------------
HISTORY_VARIANTS = [
    {},
    {"frame_rate_numer": 30000, "frame_rate_denom": 1001},
    {"luma_offset": 64, "luma_excursion": 876, "color_diff_offset": 512, "color_diff_excursion": 896},
    {"mode": "ld"},
    {"picture_coding_mode": 1, "frame_height": 8},
    {"color_diff_format_index": 1},
    {"pixel_aspect_ratio_numer": 12, "pixel_aspect_ratio_denom": 11},
    {"color_primaries_index": 3, "color_matrix_index": 3, "transfer_function_index": 3},
    {"frame_width": 12, "frame_height": 8},
    {"fragment_slice_count": 1},
    {"top_field_first": False, "source_sampling": 1},
]


def history_cases():
    base = encspace.core("quick")[0][1]
    cfgs = [dict(base, **v) for v in HISTORY_VARIANTS]
    return [(cfgs[i], cfgs[j]) for i in range(len(cfgs)) for j in range(len(cfgs)) if i != j]


def run_history(a, b):
    """Encode configuration a, edit the SAME CodecFeatures object in place into b, encode again."""
    kw, _ = encspace.split(a)
    cf = encfeat.make_cf(**kw)
    label_a, pr = run_config("history", a, reuse=cf)
    if pr:
        return label_a, ["first configuration: " + pr[0]]
    label_b, pr = run_config("history", b, reuse=cf)
    if pr:
        return label_b, ["after editing the CodecFeatures object of %r in place into %r: %s" % (a, b, pr[0])]
    return label_a + "+" + label_b, []


def _shard(arg):
    tier, w, n = arg
    t = Tally()
    for a, b in history_cases()[w::n]:
        label, problems = run_history(a, b)
        t.count("history_cases")
        t.outcome("history_outcome", label)
        if problems:
            t.violation("history: %s" % problems[0], {"history": [a, b]})
    cfgs = all_configs(tier)
    for i in range(w, len(cfgs), n):
        group, cfg = cfgs[i]
        label, problems = run_config(group, cfg)
        t.count("configs")
        t.count("group:" + group)
        t.outcome("outcome", label)
        t.outcome("outcome:" + group, label.split(":")[0])
        if label == "ok" and not problems:
            t.distinct("accepted", sorted(cfg.items(), key=str))
            t.sample("ok:" + group, cfg)
        if problems:
            t.violation("%s %r: %s" % (group, cfg, problems[0]), {"group": group, "config": cfg})
    return t


def run(ctx):
    n = 64
    order = list(range(n))
    r = ctx.seed % n
    total = pool.map_shards(_shard, [(ctx.tier, w, n) for w in order[r:] + order[:r]])
    cfgs = all_configs(ctx.tier)
    if total.n["configs"] != len(cfgs):
        total.error("evaluated %d of %d" % (total.n["configs"], len(cfgs)))
    ok = total.hist["outcome"].get("ok", 0)
    if ok * 100 < 60 * len(cfgs) and not total.violation_count:
        total.error("vacuous: only %d of %d configurations were encoded" % (ok, len(cfgs)))
    sizes = {k[6:]: v for k, v in total.n.items() if k.startswith("group:")}
    cov = {
        "evaluations": total.n["configs"],
        "distinct_nontrivial": total.ndistinct("accepted"),
        "rule": "every configuration of each listed product is encoded with the real encoder, serialised with automatic field filling, validated and decoded by the real validator; non-trivial = distinct configurations that were encoded, accepted and whose decoded parameters/numbers were compared",
        "exhaustive": total.n["configs"] == len(cfgs),
        "bounds": {"product_sizes": sizes, "wavelet_pairs": 49 if ctx.tier == "thorough" else 13, "global_cross_product": "not covered", "in_place_histories": "%d ordered pairs of one-field variants of the first core configuration, encoded through ONE CodecFeatures object edited in place" % len(history_cases())},
    }
    return total, cov


def replay_case(case):
    if "history" in case:
        return run_history(*case["history"])[1]
    return run_config(case["group"], case["config"])[1]
