"""C25 -- the validator command reports verdicts and decoded pictures faithfully.

The real vc2-bitstream-validator main() run in-process on files in a scratch
directory, over conformant corpora and deviation sets (DESIGN.md 6, C25).
"""
import contextlib
import io
import os
import re
import shutil
import tempfile

import mc  # noqa
from mc import pool, vc2run
from mc.tally import Tally
from props import corpus, encfeat, encspace

PROPERTY = "C25"
LEVEL = "fault_enumeration"
ASSUMPTIONS = [
    "the command is run in-process (vc2_bitstream_validator.main) with stdout/stderr captured, on files in a per-worker scratch directory",
    "the library decoder (vc2_conformance.decoder.parse_stream) decides which inputs are conformant and provides the expected pictures",
    "resource bound as C02; inputs above it are set aside",
]
PATTERNS = ("picture_%d.raw", "out/p%03d.raw", "noext_%d", "take.1/pic_%d", "./rel_%d", "a.b/c.d_%02d.raw", "out/../up_%d")


def run_cli(data, workdir, pattern, quiet=True):
    """Returns (rc or exception, stdout, list of files written)."""
    from vc2_conformance.scripts import vc2_bitstream_validator as cli

    vc2run.install_decoder_limits()
    for name in os.listdir(workdir):
        p = os.path.join(workdir, name)
        if os.path.isdir(p):
            shutil.rmtree(p)
        else:
            os.remove(p)
    os.mkdir(os.path.join(workdir, "out"))
    os.mkdir(os.path.join(workdir, "take.1"))
    os.mkdir(os.path.join(workdir, "a.b"))
    path = os.path.join(workdir, "in.vc2")
    with open(path, "wb") as f:
        f.write(data)
    out, err = io.StringIO(), io.StringIO()
    argv = [path, "-o", os.path.join(workdir, pattern)] + (["-q"] if quiet else [])
    try:
        with contextlib.redirect_stdout(out), contextlib.redirect_stderr(err):
            with vc2run.fresh_process_int_limit():
                rc = cli.main(argv)
    except vc2run.OutOfScope:
        return "oos", "", []
    except SystemExit as e:
        rc = "exit:%r" % (e.code,)
    except Exception as e:  # noqa
        rc = "exception:%s: %s" % (type(e).__name__, e)
    files = []
    for root, _, names in os.walk(workdir):
        for n in names:
            rel = os.path.relpath(os.path.join(root, n), workdir)
            if rel != "in.vc2":
                files.append(rel)
    return rc, out.getvalue(), sorted(files)


def expected_raw_bytes(pic, vp, pcm):
    """The documented .raw layout (docs user_guide/file_format.rst), computed here: planar Y, C1,
    C2 in raster order; each sample an unsigned little-endian integer in the smallest
    power-of-two number of bytes holding the component's depth."""
    out = bytearray()
    for comp, exc in (("Y", vp["luma_excursion"]), ("C1", vp["color_diff_excursion"]), ("C2", vp["color_diff_excursion"])):
        depth = max(1, int(exc).bit_length())  # = intlog2(excursion + 1)
        nbytes = 1
        while nbytes * 8 < depth:
            nbytes *= 2
        for row in pic[comp]:
            for v in row:
                out += int(v).to_bytes(nbytes, "little")
    return bytes(out)


def expected_error_offset(v):
    """The bit offset the decoder itself nominates for the error: the exception's offending
    offset if it names one, else the validator's read position when it failed."""
    from vc2_conformance.decoder import tell
    from vc2_conformance.bitstream.io import to_bit_offset

    off = v.exc.offending_offset()
    if off is None:
        off = to_bit_offset(*tell(v.state))
    return off


def to_lists(a):
    return [[int(v) for v in row] for row in a]


def check_input(data, workdir, pattern="picture_%d.raw", quiet=True):
    """Returns (kind, problems)."""
    from vc2_conformance import file_format

    try:
        v = vc2run.validate(data, limits=True)
    except vc2run.OutOfScope:
        return "oos", []
    if v.kind == "oos":
        return "oos", []
    rc, stdout, files = run_cli(data, workdir, pattern, quiet)
    if rc == "oos":
        return "oos", []
    problems = []
    if v.kind == "accept":
        if rc != 0:
            return "conformant", ["conformant stream: exit status %r (stdout: %s)" % (rc, stdout[-200:])]
        # expected names: the pattern with only its *final component's* extension replaced
        head, tail = os.path.split(pattern)
        tail_stem = tail[: tail.rindex(".")] if "." in tail else tail
        stem = os.path.normpath(os.path.join(head, tail_stem))
        want = []
        for i in range(len(v.pictures)):
            base = stem % (i,)
            want += [base + ".raw", base + ".json"]
        if sorted(want) != files:
            return "conformant", ["files written %r, expected %r" % (files, sorted(want))]
        for i, (pic, vp, pcm) in enumerate(v.pictures):
            try:
                with vc2run.lifted_int_limit():
                    rpic, rvp, rpcm = file_format.read(os.path.join(workdir, stem % (i,) + ".raw"))
            except Exception as e:  # noqa
                return "conformant", ["could not read back picture %d: %s: %s" % (i, type(e).__name__, e)]
            if rpic["pic_num"] != pic["pic_num"] or any(to_lists(rpic[c]) != pic[c] for c in ("Y", "C1", "C2")):
                return "conformant", ["written picture %d differs from the decoder's output" % i]
            if dict(rvp) != dict(vp) or int(rpcm) != int(pcm):
                return "conformant", ["written metadata of picture %d differs" % i]
            with open(os.path.join(workdir, stem % (i,) + ".raw"), "rb") as f:
                raw = f.read()
            if raw != expected_raw_bytes(pic, vp, pcm):
                return "conformant", ["raw file of picture %d (%d bytes) is not the documented planar layout of the decoder's output (%d bytes expected)" % (i, len(raw), len(expected_raw_bytes(pic, vp, pcm)))]
        return "conformant", []
    if v.kind == "reject":
        if rc != 2:
            return "nonconformant", ["non-conformant stream (%s): exit status %r" % (v.label, rc)]
        m = re.search(r"Conformance error at bit offset (\d+)", stdout)
        if not m:
            problems.append("no located explanation in the output")
        else:
            want_off = expected_error_offset(v)
            if int(m.group(1)) != want_off:
                problems.append("explanation located at bit offset %s, the decoder nominates %d (%s)" % (m.group(1), want_off, v.label))
            hint = stdout.split("Suggested bitstream viewer commands")[-1].split("Pseudocode traceback")[0]
            if "{offset}" in v.exc.bitstream_viewer_hint() and not re.search(r"(?<!\d)%d(?!\d)" % want_off, hint):
                problems.append("viewer hint does not point at the nominated offset %d (%s)" % (want_off, v.label))
            parts = stdout.split("Details\n-------")
            summary = parts[0].split("\n", 2)[2].strip() if len(parts) > 1 else ""
            if not summary:
                problems.append("empty error summary")
            if "Suggested bitstream viewer commands" not in stdout or not stdout.split("Suggested bitstream viewer commands\n-----------------------------------")[1].split("Pseudocode traceback")[0].strip():
                problems.append("empty bitstream viewer hint")
        return "nonconformant", problems
    # the library itself crashed: the command must still not report an internal error -- it will
    return "crash", ["validator raised %s; command exit status %r" % (v.label, rc)]


def resolve_huge(cfg):
    """'huge' is kept symbolic in configurations (evidence and replay files are JSON)."""
    cfg = dict(cfg)
    which = cfg.pop("huge", None)
    if which == "frame_rate":
        cfg.update(frame_rate_numer=(1 << 20000) + 12345, frame_rate_denom=1001)
    elif which == "pixel_aspect_ratio":
        cfg.update(pixel_aspect_ratio_numer=7, pixel_aspect_ratio_denom=(1 << 15000) + 1)
    return cfg


def conformant_inputs(tier):
    """[(name, callable -> bytes)]"""
    out = []
    cfgs = encspace.core(tier)[:: (3 if tier != "thorough" else 1)]
    for g, c in cfgs:
        out.append(("enc", c))
    for g, c in encspace.groups(tier):
        if g in ("G1", "G2") and (tier == "thorough" or (hash_stable(c) % 6 == 0)):
            out.append(("enc", c))
        if g == "G1" and c.get("slices_x") == 2 and c.get("fragment_slice_count") in (0, 1) and c == [x for gg, x in encspace.groups(tier) if gg == "G1" and x.get("slices_x") == 2 and x.get("fragment_slice_count") == c.get("fragment_slice_count")][0]:
            # conformant streams carrying a legal value of more than 4300 decimal digits
            out.append(("enc", dict(c, huge="frame_rate")))
            out.append(("enc", dict(c, huge="pixel_aspect_ratio")))
        if g == "G3" and (tier == "thorough" or (hash_stable(c) % 3 == 0) or c["luma_excursion"].bit_length() != c["color_diff_excursion"].bit_length()):
            out.append(("enc", c))
    return out


def hash_stable(c):
    from mc.tally import stable_hash

    return int.from_bytes(stable_hash(sorted(c.items(), key=str)), "big")


def deviation_cases(tier):
    kinds = {"id", "trunc", "sub", "code", "pi", "tok"}
    cases = corpus.enumerate_cases("quick", kinds)
    if tier != "thorough":
        cases = [c for c in cases if c[0] in (0, 1, 3, 4, 5, 11) or c[1] == "id"]
    return cases


def _shard(arg):
    tier, w, n = arg
    from vc2_conformance.encoder.exceptions import UnsatisfiableCodecFeaturesError

    t = Tally()
    workdir = tempfile.mkdtemp(prefix="verif-c25-")
    try:
        ci = conformant_inputs(tier)
        for i in range(w, len(ci), n):
            src, cfg = ci[i]
            kw, opts = encspace.split(resolve_huge(cfg))
            try:
                cf = encfeat.make_cf(**kw)
                data = encfeat.encode_stream(cf, "noise", 2)
            except UnsatisfiableCodecFeaturesError:
                continue
            pattern = PATTERNS[i % len(PATTERNS)]
            kind, problems = check_input(data, workdir, pattern, quiet=(i % 2 == 0))
            t.count("inputs")
            t.outcome("kind", kind)
            if problems:
                t.violation("encoder stream %r (pattern %s): %s" % (cfg, pattern, problems[0]), {"enc": cfg, "pattern": pattern, "quiet": i % 2 == 0})
            elif kind == "conformant":
                t.distinct("ok", ("enc", sorted(cfg.items(), key=str)))
                t.sample("conformant", {"enc": cfg, "pattern": pattern})
        dc = deviation_cases(tier)
        for j, case in enumerate(dc[w::n]):
            data = corpus.materialise(case)
            pattern = PATTERNS[(j + w) % len(PATTERNS)]
            kind, problems = check_input(data, workdir, pattern)
            t.count("inputs")
            t.outcome("kind", kind)
            if problems:
                t.violation("corpus case %r: %s" % (case, problems[0]), {"case": case, "pattern": pattern})
            elif kind in ("conformant", "nonconformant"):
                t.distinct("ok", case)
                if kind == "nonconformant":
                    t.sample("nonconformant", {"case": case})
    finally:
        shutil.rmtree(workdir, ignore_errors=True)
    return t


def run(ctx):
    n = 64
    total = pool.map_shards(_shard, [(ctx.tier, w, n) for w in range(n)])
    k = total.hist["kind"]
    if (k.get("conformant", 0) < 50 or k.get("nonconformant", 0) < 500) and not total.violation_count:
        total.error("vacuous: %r" % dict(k))
    cov = {
        "evaluations": total.n["inputs"],
        "distinct_nontrivial": total.ndistinct("ok"),
        "rule": "real-encoder streams for a configuration product and the 0/1-deviation sets of the builder seeds are written to files and given to the real command's main(); exit status, written files (read back with file_format.read) and the located explanation are compared with the library decoder's verdict and pictures; non-trivial = distinct inputs fully checked as conformant or non-conformant",
        "exhaustive": True,
        "bounds": {"encoder_streams": len(conformant_inputs(ctx.tier)), "deviation_cases": len(deviation_cases(ctx.tier)), "output_patterns": list(PATTERNS)},
    }
    return total, cov


def replay_case(case):
    workdir = tempfile.mkdtemp(prefix="verif-c25-")
    try:
        if "enc" in case:
            kw, opts = encspace.split(resolve_huge(case["enc"]))
            data = encfeat.encode_stream(encfeat.make_cf(**kw), "noise", 2)
            return check_input(data, workdir, case["pattern"], case.get("quiet", True))[1]
        c = tuple(tuple(x) if isinstance(x, list) else x for x in case["case"])
        return check_input(corpus.materialise(c), workdir, case["pattern"])[1]
    finally:
        shutil.rmtree(workdir, ignore_errors=True)
