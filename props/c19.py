"""C19 -- sequence completion (make_matching_sequence) is sound, complete and shortest.

Exhaustive small inputs against a reference shortest-completion search
(DESIGN.md section 6, C19).
"""
import itertools

import mc  # noqa
from mc import pool
from mc.tally import Tally
from models import regexref as R
from models import seqgen_ref as G

PROPERTY = "C19"
LEVEL = "model_checking"
ASSUMPTIONS = [
    "generated pattern sets are restricted to patterns on which the F5 defect automaton and the true semantics are exactly equivalent (product-automaton check), so F5 cannot masquerade here; real level patterns are judged under the true semantics first and under the F5 automaton second",
    "'shortest' and 'impossible' are judged among sequences with at most depth_limit consecutive insertions",
    "known finding F6 (greedy continue) is attributed only when the greedy-only reference search predicts existence and length exactly",
]
LEAVES = (("sym", "a"), ("sym", "b"), R.ANY)
ALPHA = ("a", "b", "c")
HORIZON = 60.0


def equivalent_models(ast, alphabet):
    """Exact equivalence (bisimulation on observables) of the correct and defect automata."""
    c0, d0 = R.CorrectMatcher(ast), R.DefectMatcher(ast)
    seen = {(c0.key(), d0.key())}
    stack = [(c0, d0)]
    while stack:
        c, d = stack.pop()
        if c.is_complete() != d.is_complete():
            return False
        for x in alphabet:
            c2, d2 = c.copy(), d.copy()
            rc, rd = c2.match_symbol(x), d2.match_symbol(x)
            if rc != rd:
                return False
            if rc:
                k = (c2.key(), d2.key())
                if k not in seen:
                    seen.add(k)
                    stack.append((c2, d2))
    return True


_F5FREE = {}


def f5_free_patterns(max_nodes):
    if max_nodes not in _F5FREE:
        out = []
        for n in range(1, max_nodes + 1):
            for p in R.patterns_of_size(n, LEAVES):
                if equivalent_models(p, ALPHA):
                    out.append(p)
        _F5FREE[max_nodes] = out
    return _F5FREE[max_nodes]


def call_impl(required, texts, depth_limit, priority):
    from vc2_conformance.symbol_re import make_matching_sequence, ImpossibleSequenceError

    kw = {}
    if depth_limit is not None:
        kw["depth_limit"] = depth_limit
    if priority is not None:
        kw["symbol_priority"] = list(priority)
    try:
        res = pool.with_watchdog(HORIZON, make_matching_sequence, list(required), *texts, **kw)
        return "ok", list(res)
    except ImpossibleSequenceError:
        return "impossible", None
    except pool.Watchdog:
        return "timeout", None
    except Exception as e:  # noqa
        return "error", "%s: %s" % (type(e).__name__, e)


def judge(required, asts, depth_limit, priority, outcome, result, matcher_cls):
    """Returns (verdict, why): verdict in ok | f6 | bad."""
    eff_limit = 3 if depth_limit is None else depth_limit
    syms = set(required)
    for a in asts:
        syms |= R.symbols_of(a)
    alphabet = sorted(syms) + [G.OTHER]
    ms = [matcher_cls(a) for a in asts]
    best = G.shortest(required, ms, alphabet, eff_limit)
    if outcome == "ok":
        why = G.check_result(result, required, ms, eff_limit)
        if why:
            return "bad", why
        if best is None:
            return "bad", "result %r returned although the reference finds no sequence within the consecutive-insertion limit" % (result,)
        if len(result) == best:
            return "ok", None
        if len(result) < best:
            return "bad", "result %r is shorter (%d) than the reference shortest (%d) within the insertion limit" % (result, len(result), best)
        g = G.greedy_shortest(required, ms, alphabet, eff_limit)
        if g is not None and g == len(result):
            return "f6", "length %d, shortest is %d" % (len(result), best)
        return "bad", "result %r has length %d but a sequence of length %d exists" % (result, len(result), best)
    if outcome == "impossible":
        if best is None:
            return "ok", None
        g = G.greedy_shortest(required, ms, alphabet, eff_limit)
        if g is None:
            return "f6", "ImpossibleSequenceError although a sequence of length %d exists" % best
        return "bad", "ImpossibleSequenceError although a sequence of length %d exists (and the greedy search finds one of length %d)" % (best, g)
    return "bad", "make_matching_sequence: %s %s" % (outcome, result)


def run_case(required, asts, depth_limit, priority, t, source, texts=None):
    texts = texts or [R.render(a) for a in asts]
    outcome, result = call_impl(required, texts, depth_limit, priority)
    t.count("calls")
    t.outcome("outcome", outcome)
    verdict, why = judge(required, asts, depth_limit, priority, outcome, result, R.CorrectMatcher)
    case = {"required": list(required), "patterns": texts, "depth_limit": depth_limit, "symbol_priority": priority, "source": source}
    if verdict == "ok":
        if outcome == "ok" and len(result) > len(required):
            t.distinct("nontrivial", (tuple(required), tuple(texts), depth_limit))
        return
    if source == "real":
        v2, why2 = judge(required, asts, depth_limit, priority, outcome, result, R.DefectMatcher)
        if v2 == "ok":
            t.known_finding("F5", case)
            return
        if v2 == "f6":
            t.known_finding("F6", case)
            return
    if verdict == "f6":
        t.known_finding("F6", case)
        return
    t.violation("%s: required=%r patterns=%r depth_limit=%r priority=%r: %s" % (source, list(required), texts, depth_limit, priority, why), case)


def gen_cases(tier):
    quick = tier != "thorough"
    pats = f5_free_patterns(4)
    reqs = [r for n in range(0, 4) for r in itertools.product(("a", "b"), repeat=n)]
    limits = (1, 2, 3)
    prios = (None, ["a", "b"])
    cases = []
    for pi in range(len(pats)):
        for r in reqs:
            for lim in limits:
                for pr in prios:
                    cases.append((r, (pi,), lim, pr))
    pool2 = [i for i, p in enumerate(pats) if R.size(p) <= 3]
    pool2 = pool2[:: (3 if quick else 1)]
    firsts = [i for i, p in enumerate(pats) if R.size(p) <= (3 if quick else 4)]
    for pi in firsts:
        for pj in pool2:
            for r in reqs:
                if quick and len(r) > 2:
                    continue
                for lim in ((2,) if quick else limits):
                    for pr in ((None,) if quick else prios):
                        cases.append((r, (pi, pj), lim, pr))
    return pats, cases


def union_family():
    """(s1 s2 [s3]) | (t1 t2 [t3]) over {a,b,c}: epsilon-free (so F5-free) patterns in which
    the shortest completion may need an insertion *before* a consumable required symbol."""
    sides = [s for n in (2, 3) for s in itertools.product(("a", "b", "c"), repeat=n)]

    def cat(seq):
        r = ("sym", seq[-1])
        for x in reversed(seq[:-1]):
            r = ("cat", ("sym", x), r)
        return r

    pats = []
    for i, s1 in enumerate(sides):
        for s2 in sides[i + 1 :]:
            pats.append(("alt", cat(s1), cat(s2)))
    reqs = [r for n in range(0, 3) for r in itertools.product(("a", "b"), repeat=n)]
    return pats, reqs


def run_family(quick=False):
    """(S1 | S2) with S1, S2 over {a,b,c} of length 4-5 holding the required symbol a exactly
    twice (adjacent in some, interleaved with fillers in others): the shortest completion of
    [a, a] is the shorter side whatever the grouping of insertions and matches -- exposes a
    search whose queue order is not by sequence length.  Epsilon-free, so F5-free."""
    sides = [s for n in (4, 5) for s in itertools.product(("a", "b", "c"), repeat=n) if s.count("a") == 2]
    out = []
    for i, s1 in enumerate(sides):
        for s2 in sides:
            if s1 != s2 and len(s1) >= len(s2):
                if quick and not (len(s1) == 5 and len(s2) == 4 and "aa" in "".join(s1)):
                    continue  # quick: a longer side with an adjacent pair against every shorter side
                out.append(("alt", _seq(s1), _seq(s2)))
    return out


def _seq(symbols):
    r = ("sym", symbols[-1]) if symbols[-1] != "." else R.ANY
    for x in reversed(symbols[:-1]):
        r = ("cat", ("sym", x) if x != "." else R.ANY, r)
    return r


def rejoin_family():
    """(P1 | P2) T: two routes that contain the required symbol m once each (at different
    positions) re-join before a tail that needs further insertions -- exposes search pruning
    that forgets the remaining insertion budget.  Epsilon-free, so F5-free."""
    routes = [s for n in (2, 3) for s in itertools.product(("a", "b", "m"), repeat=n) if s.count("m") == 1]
    tails = [(), ("q",), ("q", "y"), ("q", "y", "y")]
    out = []
    for i, p1 in enumerate(routes):
        for p2 in routes[i + 1 :]:
            for tail in tails:
                alt = ("alt", _seq(p1), _seq(p2))
                out.append(("cat", alt, _seq(tail)) if tail else alt)
    return out


def loop_pair_family():
    """[(first pattern, second pattern)]: a wildcard-free looping pattern together with a
    pattern that forces a fixed run of insertions -- exposes state shared between matchers
    or cached across steps."""
    x, y = ("sym", "x"), ("sym", "y")
    loops = [
        ("cat", ("star", x), y),
        ("star", ("alt", x, y)),
        ("cat", ("star", x), ("star", y)),
        ("cat", ("plus", x), y),
        ("cat", ("star", ("alt", x, ("sym", "z"))), y),
        ("star", ("cat", x, y)),
    ]
    loops = [p for p in loops if equivalent_models(p, ("x", "y", "z", "c"))]
    seconds = [_seq(s) for n in (2, 3, 4) for s in itertools.product(("x", "y", "."), repeat=n)]
    seconds += [("cat", _seq(s), ("star", R.ANY)) for n in (2, 3) for s in itertools.product(("x", "y", "z"), repeat=n)]
    return [(a, b) for a in loops for b in seconds]


def _shard_families(arg):
    w, n = arg
    t = Tally()
    for p in rejoin_family()[w::n]:
        for lim in (1, 2, 3):
            run_case(("m",), [p], lim, None, t, "rejoin-family")
            t.count("family_calls")
    reqs = [r for k in range(0, 3) for r in itertools.product(("x", "y"), repeat=k)]
    for a, b in loop_pair_family()[w::n]:
        for r in reqs:
            run_case(r, [a, b], 3, None, t, "loop-pair-family")
            run_case(r, [b, a], 3, None, t, "loop-pair-family")
            t.count("family_calls", 2)
    return t


def _shard_union(arg):
    w, n, quick = arg
    pats, reqs = union_family()
    t = Tally()
    for p in run_family(quick)[w::n]:
        run_case(("a", "a"), [p], 3, None, t, "run-family")
        t.count("run_family_calls")
    for p in pats[w::n]:
        for r in reqs:
            for lim in (1, 3):
                run_case(r, [p], lim, None, t, "union-family")
                t.count("union_family_calls")
    return t


def _shard(arg):
    tier, w, n = arg
    pats, cases = gen_cases(tier)
    t = Tally()
    for r, pis, lim, pr in cases[w::n]:
        run_case(r, [pats[i] for i in pis], lim, pr, t, "generated")
    return t


PIC_LISTS = None


def real_cases():
    from vc2_conformance.level_constraints import LEVEL_SEQUENCE_RESTRICTIONS

    levels = []
    seen = set()
    for lv, r in sorted(LEVEL_SEQUENCE_RESTRICTIONS.items(), key=lambda kv: int(kv[0])):
        if r.sequence_restriction_regex not in seen:
            seen.add(r.sequence_restriction_regex)
            levels.append(r.sequence_restriction_regex)
    extra = [None, "(sequence_header .)+", "sequence_header (padding_data .)* padding_data end_of_sequence $", "(. padding_data)+ end_of_sequence"]
    pics = []
    for name in ("high_quality_picture", "low_delay_picture"):
        for n in range(0, 4):
            pics.append([name] * n)
    for name in ("high_quality_picture_fragment", "low_delay_picture_fragment"):
        for n in range(1, 3):
            pics.append([name] * (3 * n))
    pics.append(["high_quality_picture", "high_quality_picture_fragment", "high_quality_picture_fragment"])
    pics.append(["low_delay_picture_fragment", "low_delay_picture_fragment", "low_delay_picture"])
    out = []
    for lv in levels:
        for ex in extra:
            for p in pics:
                texts = ["sequence_header .* end_of_sequence", lv] + ([ex] if ex else [])
                out.append((p, texts))
    return out


def _shard_real(arg):
    w, n = arg
    t = Tally()
    for req, texts in real_cases()[w::n]:
        asts = [R.parse(x) for x in texts]
        run_case(req, asts, None, ["padding_data", "sequence_header"], t, "real", texts=texts)
        t.count("real_calls")
    return t


def run(ctx):
    n = 64
    pats, cases = gen_cases(ctx.tier)
    total = pool.map_shards(_shard, [(ctx.tier, w, n) for w in range(n)])
    total.merge(pool.map_shards(_shard_real, [(w, 32) for w in range(32)]))
    total.merge(pool.map_shards(_shard_union, [(w, 64, ctx.quick) for w in range(64)]))
    total.merge(pool.map_shards(_shard_families, [(w, 64) for w in range(64)]))
    upats, ureqs = union_family()
    expected = len(cases) + len(real_cases()) + len(upats) * len(ureqs) * 2 + len(rejoin_family()) * 3 + len(loop_pair_family()) * 7 * 2 + len(run_family(ctx.quick))
    if total.n["calls"] != expected:
        total.error("evaluated %d of %d" % (total.n["calls"], expected))
    total.sample("generated", {"required": ["b"], "patterns": ["(a b) | (b (c c))"], "depth_limit": 3})
    total.sample("real", {"required": ["high_quality_picture"] * 2, "patterns": real_cases()[0][1]})
    cov = {
        "states": total.ndistinct("nontrivial") + 1,
        "transitions": total.n["calls"],
        "traces_validated_against_impl": total.n["calls"],
        "exhaustive": True,
        "bounds": {
            "f5_free_patterns_upto_4_nodes": len(pats),
            "required_lists": "all over {a,b} up to length 3 (pairs of patterns: see tier)",
            "depth_limits": [1, 2, 3],
            "generated_cases": len(cases),
            "real_cases": len(real_cases()),
            "rejoin_family": "%d patterns (P1 | P2) T x depth_limit {1,2,3}, required [m]" % len(rejoin_family()),
            "loop_pair_family": "%d ordered pattern pairs (loop, forced run) x required lists over {x,y} up to length 2, both orders" % len(loop_pair_family()),
            "run_family": "%d patterns (S1 | S2), sides of length 4-5 over {a,b,c} holding a exactly twice, |S1| >= |S2|, both orders; required [a, a], depth_limit 3 (quick: |S1| = 5 with the pair adjacent, |S2| = 4)" % len(run_family(ctx.quick)),
            "union_family": "all (s1 s2 [s3]) | (t1 t2 [t3]) over {a,b,c} (%d patterns) x required lists over {a,b} up to length 2 x depth_limit {1,3}" % len(upats),
        },
        "rule": "every (required list, pattern set, depth_limit, symbol_priority) of the stated product is given to the real make_matching_sequence and judged against a reference shortest-completion search with a visited set; states = distinct inputs whose answer needed insertions",
    }
    return total, cov


def replay_case(case):
    t = Tally()
    asts = [R.parse(x) for x in case["patterns"]]
    run_case(tuple(case["required"]), asts, case.get("depth_limit"), case.get("symbol_priority"), t, case.get("source", "generated"), texts=case["patterns"])
    return [v["what"] for v in t.violations]
