"""Configuration spaces shared by the encoder-side drivers C03 / C04 (DESIGN.md 6/C03)."""
import itertools

MODES = ("ld", "hq", "hqll")  # LD lossy, HQ lossy, HQ lossless
SYM = [(i, i) for i in range(7)]
ASYM6 = [(0, 1), (1, 4), (2, 3), (3, 0), (4, 6), (6, 5)]
ALL49 = [(a, b) for a in range(7) for b in range(7)]
DEPTHS7 = [(0, 0), (1, 0), (2, 0), (0, 1), (1, 1), (0, 2), (2, 1)]
CORE_WAVELETS_REDUCED = [(4, 4), (1, 1), (3, 0)]
CORE_DEPTHS_REDUCED = [(1, 0), (0, 1), (2, 1)]


def mode_kw(mode):
    if mode == "ld":
        return dict(profile=0, lossless=False)
    if mode == "hq":
        return dict(profile=3, lossless=False)
    return dict(profile=3, lossless=True)


def core(tier):
    wl = ALL49 if tier == "thorough" else SYM + ASYM6
    out = []
    for mode in MODES:
        for wi, wiho in wl:
            for dd, ddho in DEPTHS7:
                out.append(("core", dict(mode=mode, wavelet_index=wi, wavelet_index_ho=wiho, dwt_depth=dd, dwt_depth_ho=ddho)))
    return out


def reduced_core(tier):
    wl = (SYM if tier == "thorough" else CORE_WAVELETS_REDUCED)
    out = []
    for mode in MODES:
        for wi, wiho in wl:
            for dd, ddho in CORE_DEPTHS_REDUCED:
                out.append(dict(mode=mode, wavelet_index=wi, wavelet_index_ho=wiho, dwt_depth=dd, dwt_depth_ho=ddho))
    return out


def groups(tier):
    """[(group name, base config dict, extra dict)] -- every listed product is complete."""
    rc = reduced_core(tier)
    out = []
    # G1 slices x fragments
    for c in rc:
        for sx, sy in ((1, 1), (2, 1), (1, 2), (3, 2), (4, 4)):
            for fsc in (0, 1, 2, 3, sx * sy, sx * sy + 5):
                out.append(("G1", dict(c, slices_x=sx, slices_y=sy, fragment_slice_count=fsc, frame_width=8, frame_height=8 if sy == 4 else 4)))
    # G2 colour format x coding mode x source sampling x frame sizes
    for c in rc:
        for cdf in (0, 1, 2):
            for pcm in (0, 1):
                for ss in (0, 1):
                    for w, h in ((8, 4), (4, 8), (12, 4), (6, 4), (2, 4)):
                        out.append(("G2", dict(c, color_diff_format_index=cdf, picture_coding_mode=pcm, source_sampling=ss, frame_width=w, frame_height=h)))
    # G3 signal ranges: presets and custom excursions (depths 1,2,7,9,17)
    ranges = [
        (0, 255, 128, 255),
        (16, 219, 128, 224),
        (64, 876, 512, 896),
        (256, 3504, 2048, 3584),
        (0, 65535, 32768, 65535),
        (0, 1, 1, 1),
        (0, 3, 2, 3),
        (10, 100, 64, 127),
        (0, 511, 256, 300),
        (0, 131071, 65536, 70000),
        # luma and colour-difference depths falling in different byte widths
        (0, 1023, 128, 255),
        (0, 255, 512, 1023),
        (0, 4095, 128, 224),
        (0, 255, 1 << 19, (1 << 20) - 1),
        (0, (1 << 24) - 1, 2048, 4095),
    ]
    for c in rc:
        for lo, le, co, ce in ranges:
            out.append(("G3", dict(c, luma_offset=lo, luma_excursion=le, color_diff_offset=co, color_diff_excursion=ce)))
    # G4 quantisation matrix default / custom; frame rate / aspect / primaries variants that steer base format choice
    for c in rc:
        for qm in ("auto", "custom"):
            for vpkw in (
                dict(),
                dict(frame_rate_numer=30000, frame_rate_denom=1001),
                dict(frame_rate_numer=50, frame_rate_denom=1, pixel_aspect_ratio_numer=12, pixel_aspect_ratio_denom=11),
                dict(color_primaries_index=3, color_matrix_index=3, transfer_function_index=3),
                dict(color_primaries_index=1, transfer_function_index=2, top_field_first=False),
                dict(clean_width=4, clean_height=2, left_offset=2, top_offset=1),
            ):
                out.append(("G4", dict(c, quantization_matrix=qm, **vpkw)))
    # G5 picture_bytes (lossy only): minimum legal and around it
    for c in rc:
        if c["mode"] == "hqll":
            continue
        for sx, sy in ((2, 1), (3, 2)):
            n = sx * sy
            for pb in (n, 2 * n, 4 * n - 1, 4 * n, 4 * n + 1, 8 * n, 40 * n, 300 * n):
                out.append(("G5", dict(c, slices_x=sx, slices_y=sy, picture_bytes=pb)))
    # G6 picture content x picture numbers x number of pictures
    for c in rc:
        for content in ("grey", "min", "max", "checker", "noise"):
            for pn in (None, 0, 0xFFFFFFFE, 7):
                for frames in (1, 2, 3):
                    out.append(("G6", dict(c, content=content, first_pic_num=pn, frames=frames)))
    # G7 every colour-spec triple, preset frame rate, pixel aspect ratio and signal range (one core config per mode)
    from vc2_data_tables import PRESET_FRAME_RATES, PRESET_PIXEL_ASPECT_RATIOS, PRESET_SIGNAL_RANGES, PresetColorPrimaries, PresetColorMatrices, PresetTransferFunctions

    for mode in MODES:
        c = dict(mode=mode, wavelet_index=4, wavelet_index_ho=4, dwt_depth=1, dwt_depth_ho=0)
        for p in PresetColorPrimaries:
            for m in PresetColorMatrices:
                for t in PresetTransferFunctions:
                    out.append(("G7", dict(c, color_primaries_index=int(p), color_matrix_index=int(m), transfer_function_index=int(t))))
        for i, fr in sorted(PRESET_FRAME_RATES.items()):
            out.append(("G7", dict(c, frame_rate_numer=fr.numerator, frame_rate_denom=fr.denominator)))
        for i, r in sorted(PRESET_PIXEL_ASPECT_RATIOS.items()):
            out.append(("G7", dict(c, pixel_aspect_ratio_numer=r.numerator, pixel_aspect_ratio_denom=r.denominator)))
        for i, fr in sorted(PRESET_FRAME_RATES.items()):
            out.append(("G7", dict(c, frame_rate_numer=2 * fr.numerator, frame_rate_denom=2 * fr.denominator)))
        for i, r in sorted(PRESET_PIXEL_ASPECT_RATIOS.items()):
            out.append(("G7", dict(c, pixel_aspect_ratio_numer=2 * r.numerator, pixel_aspect_ratio_denom=2 * r.denominator)))
        out.append(("G7", dict(c, frame_rate_numer=3, frame_rate_denom=3, pixel_aspect_ratio_numer=5, pixel_aspect_ratio_denom=5)))
        for i, sr in sorted(PRESET_SIGNAL_RANGES.items()):
            out.append(("G7", dict(c, luma_offset=sr.luma_offset, luma_excursion=sr.luma_excursion, color_diff_offset=sr.color_diff_offset, color_diff_excursion=sr.color_diff_excursion)))
    # G8 slice lengths around the 8-bit length-field boundaries: one slice, untransformed,
    # flat extreme pictures of every width (16 bits per 8-bit sample -> 16*w bytes per component)
    for mode in ("hqll", "hq"):
        for w in range(1, 35):
            for content in ("max", "min", "noise"):
                for bits10 in (False, True):
                    c = dict(mode=mode, wavelet_index=4, wavelet_index_ho=4, dwt_depth=0, dwt_depth_ho=0, slices_x=1, slices_y=1, frame_width=w, frame_height=8, content=content)
                    if bits10:
                        c.update(luma_offset=0, luma_excursion=1023, color_diff_offset=512, color_diff_excursion=1023)
                    if mode == "hq":
                        c["picture_bytes"] = 3 * 20 * w + 8
                    out.append(("G8", c))
    # G9 no custom quantisation matrix given, for every wavelet pair and depth pair: where the standard
    # has no default matrix the encoder must refuse; it must never emit a stream the validator rejects
    for mode in ("hq", "ld"):
        for wi, wiho in ALL49:
            for dd, ddho in DEPTHS7 + [(0, 3), (3, 0), (1, 2)]:
                out.append(("G9", dict(mode=mode, wavelet_index=wi, wavelet_index_ho=wiho, dwt_depth=dd, dwt_depth_ho=ddho, quantization_matrix=None)))
    return out


def split(cfg):
    """cfg dict -> (make_cf kwargs, run options)."""
    cfg = dict(cfg)
    mode = cfg.pop("mode")
    opts = {"content": cfg.pop("content", "noise"), "first_pic_num": cfg.pop("first_pic_num", None), "frames": cfg.pop("frames", 1)}
    kw = dict(mode_kw(mode))
    kw.update(cfg)
    return kw, opts
