"""C13 -- slices tile every subband and low-delay slice sizes sum exactly.

Exhaustive enumeration of (i) a per-axis box of component extent x transform
depths x slice count x level x component for the slice-edge functions, (ii) a 2-D
box for `slices_have_same_dimensions` against the definition, (iii) the shapes the
real forward transform produces against the subband dimensions, (iv) a box of
(numerator, denominator, slices_x, slices_y) for `slice_bytes`.  Oracle:
models/sliceref.py (decomposition run step by step, partition by definition).
"""
import importlib

import mc  # noqa: F401
from mc import pool
from mc.tally import Tally
from models import sliceref as R

PROPERTY = "C13"
LEVEL = "exploration"
ASSUMPTIONS = [
    "horizontal and vertical slice bounds are enumerated per axis (the functions under test take one axis each); the other axis is held at extent 1 / one slice",
    "component selection: Y reads the luma size, C1/C2 read the colour-difference size; per-axis boxes give luma extent w and colour-difference extent (max+1-w), so both cover the whole range",
    "the 2-D flag box uses three colour formats (colour-difference size = luma, half width rounded up, half width and height rounded up)",
    "the transform-shape tie uses the Haar filter only (shapes do not depend on the filter; C11 covers all filter pairs)",
    "bounded box only: nothing is claimed for extents/slice counts beyond bounds",
]

COMPS = ("Y", "C1", "C2")


def ss():
    return importlib.import_module("vc2_conformance.pseudocode.slice_sizes")


def mk_state(lw=1, lh=1, cw=1, ch=1, d=0, dh=0, sx=1, sy=1, num=None, den=None):
    st = {
        "luma_width": lw,
        "luma_height": lh,
        "color_diff_width": cw,
        "color_diff_height": ch,
        "dwt_depth": d,
        "dwt_depth_ho": dh,
        "slices_x": sx,
        "slices_y": sy,
    }
    if num is not None:
        st["slice_bytes_numerator"] = num
        st["slice_bytes_denominator"] = den
    return st


# ---------------------------------------------------------------------------
# (i) per-axis slice edges
# ---------------------------------------------------------------------------


def axis_state(axis, comp, extent, other, d, dh, slices):
    """State in which component `comp` has `extent` along `axis`; the other
    component kind gets `other` (so that reading the wrong one is visible)."""
    lum, col = (extent, other) if comp == "Y" else (other, extent)
    if axis == "x":
        return mk_state(lw=lum, cw=col, d=d, dh=dh, sx=slices)
    return mk_state(lh=lum, ch=col, d=d, dh=dh, sy=slices)


def check_axis_case(axis, comp, extent, other, d, dh, slices, level):
    """Returns (problems, nonuniform?, has_empty_slice?)."""
    m = ss()
    st = axis_state(axis, comp, extent, other, d, dh, slices)
    if axis == "x":
        dim_fn, lo_fn, hi_fn, k = m.subband_width, m.slice_left, m.slice_right, 0
        ref = R.subband_dims(extent, 1, d, dh)[level][0]
    else:
        dim_fn, lo_fn, hi_fn, k = m.subband_height, m.slice_top, m.slice_bottom, 1
        ref = R.subband_dims(1, extent, d, dh)[level][1]
    problems = []
    got = dim_fn(st, level, comp)
    if got != ref:
        problems.append("%s(level=%d, %s) = %r, decomposition gives %d" % (dim_fn.__name__, level, comp, got, ref))
    lo = [lo_fn(st, s, comp, level) for s in range(slices)]
    hi = [hi_fn(st, s, comp, level) for s in range(slices)]
    e = R.edges(ref, slices)
    if not R.is_partition(list(zip(lo, hi)), ref):
        problems.append("slices do not partition [0, %d): %s=%r %s=%r" % (ref, lo_fn.__name__, lo, hi_fn.__name__, hi))
    elif lo != e[:-1] or hi != e[1:]:
        problems.append("slice edges differ from floor(extent*s/slices): %r / %r vs %r" % (lo, hi, e))
    sizes = set(b - a for a, b in zip(e[:-1], e[1:]))
    return problems, len(sizes) > 1, 0 in sizes


def _axis_shard(arg):
    _, axis, extent, emax, dmax, dhmax, smax, comps = arg
    m = ss()
    if axis == "x":
        dim_fn, lo_fn, hi_fn, k = m.subband_width, m.slice_left, m.slice_right, 0
    else:
        dim_fn, lo_fn, hi_fn, k = m.subband_height, m.slice_top, m.slice_bottom, 1
    t = Tally()
    n_cases = n_nonuniform = n_empty = n_calls = 0
    other = emax + 1 - extent
    for comp in comps:
        for d in range(dmax + 1):
            for dh in range(dhmax + 1):
                dims = R.subband_dims(extent, 1, d, dh) if axis == "x" else R.subband_dims(1, extent, d, dh)
                for slices in range(1, smax + 1):
                    st = axis_state(axis, comp, extent, other, d, dh, slices)
                    rng = range(slices)
                    for level in range(d + dh + 1):
                        ref = dims[level][k]
                        e = R.edges(ref, slices)
                        got = dim_fn(st, level, comp)
                        lo = [lo_fn(st, s, comp, level) for s in rng]
                        hi = [hi_fn(st, s, comp, level) for s in rng]
                        n_cases += 1
                        n_calls += 2 * slices + 1
                        if got != ref or lo != e[:-1] or hi != e[1:] or not R.is_partition(list(zip(lo, hi)), ref):
                            p, _, _ = check_axis_case(axis, comp, extent, other, d, dh, slices, level)
                            t.violation(
                                p[0] if p else "fast/slow path disagree",
                                {"kind": "axis", "axis": axis, "comp": comp, "extent": extent, "other": other, "d": d, "dh": dh, "slices": slices, "level": level},
                            )
                        if ref % slices:
                            n_nonuniform += 1
                        if slices > ref:
                            n_empty += 1
    t.count("axis_cases", n_cases)
    t.count("axis_calls", n_calls)
    t.count("axis_nonuniform", n_nonuniform)
    t.count("axis_with_empty_slices", n_empty)
    return t


# ---------------------------------------------------------------------------
# (ii) slices_have_same_dimensions vs definition
# ---------------------------------------------------------------------------

FORMATS = ("444", "422", "420")


def color_dims(fmt, w, h):
    if fmt == "444":
        return (w, h)
    if fmt == "422":
        return ((w + 1) // 2, h)
    return ((w + 1) // 2, (h + 1) // 2)


def check_flag_case(fmt, w, h, d, dh, sx, sy):
    m = ss()
    cw, ch = color_dims(fmt, w, h)
    st = mk_state(lw=w, lh=h, cw=cw, ch=ch, d=d, dh=dh, sx=sx, sy=sy)
    got = m.slices_have_same_dimensions(st)
    want = R.same_dimensions((w, h), (cw, ch), d, dh, sx, sy)
    problems = []
    if bool(got) != want or not isinstance(got, bool):
        problems.append(
            "slices_have_same_dimensions = %r but by definition %r (luma %dx%d, colour-diff %dx%d, depths %d/%d, slices %dx%d)"
            % (got, want, w, h, cw, ch, d, dh, sx, sy)
        )
    return problems, want


def _flag_shard(arg):
    _, fmt, w, hmax, depmax, smax = arg
    t = Tally()
    n = n_true = 0
    for h in range(1, hmax + 1):
        for d in range(depmax + 1):
            for dh in range(depmax + 1):
                for sx in range(1, smax + 1):
                    for sy in range(1, smax + 1):
                        p, want = check_flag_case(fmt, w, h, d, dh, sx, sy)
                        n += 1
                        n_true += want
                        if p:
                            t.violation(p[0], {"kind": "flag", "fmt": fmt, "w": w, "h": h, "d": d, "dh": dh, "sx": sx, "sy": sy})
    t.count("flag_cases", n)
    t.outcome("flag", "same", n_true)
    t.outcome("flag", "different", n - n_true)
    return t


# ---------------------------------------------------------------------------
# (iii) shapes produced by the real forward transform
# ---------------------------------------------------------------------------


def check_shape_case(w, h, d, dh):
    m = ss()
    enc = importlib.import_module("vc2_conformance.pseudocode.picture_encoding")
    cw, ch = color_dims("420", w, h)
    st = mk_state(lw=w, lh=h, cw=cw, ch=ch, d=d, dh=dh)
    st["wavelet_index"] = 4  # Haar
    st["wavelet_index_ho"] = 4
    problems = []
    for comp, (pw0, ph0) in (("Y", (w, h)), ("C1", (cw, ch)), ("C2", (cw, ch))):
        pic = [[(x + 3 * y) for x in range(pw0)] for y in range(ph0)]
        enc.dwt_pad_addition(st, pic, comp)
        pw, ph = R.padded_dims(pw0, ph0, d, dh)
        if len(pic) != ph or any(len(r) != pw for r in pic):
            problems.append("%s padded to %dx%d, expected %dx%d" % (comp, len(pic[0]), len(pic), pw, ph))
            continue
        coeffs = enc.dwt(st, pic)
        ref = R.subband_dims(pw0, ph0, d, dh)
        if sorted(coeffs.keys()) != sorted(ref.keys()):
            problems.append("%s: transform levels %r, expected %r" % (comp, sorted(coeffs.keys()), sorted(ref.keys())))
            continue
        for level in sorted(ref):
            if tuple(sorted(coeffs[level].keys())) != tuple(sorted(R.orientations(level, dh))):
                problems.append("%s level %d: orientations %r" % (comp, level, sorted(coeffs[level].keys())))
            for orient, band in sorted(coeffs[level].items()):
                shape = (len(band[0]) if band else 0, len(band))
                if any(len(r) != shape[0] for r in band):
                    problems.append("%s level %d %s: ragged band" % (comp, level, orient))
                sw, sh = m.subband_width(st, level, comp), m.subband_height(st, level, comp)
                if shape != (sw, sh):
                    problems.append("%s level %d %s: transform gives %dx%d, subband_width/height say %dx%d" % (comp, level, orient, shape[0], shape[1], sw, sh))
                if shape != ref[level]:
                    problems.append("%s level %d %s: transform gives %dx%d, decomposition of the padded picture gives %dx%d" % (comp, level, orient, shape[0], shape[1], ref[level][0], ref[level][1]))
    return problems


def _shape_shard(arg):
    _, w, hmax, dmax, dhmax = arg
    t = Tally()
    for h in range(1, hmax + 1):
        for d in range(dmax + 1):
            for dh in range(dhmax + 1):
                p = check_shape_case(w, h, d, dh)
                t.count("shape_cases")
                if p:
                    t.violation(p[0], {"kind": "shape", "w": w, "h": h, "d": d, "dh": dh})
    return t


# ---------------------------------------------------------------------------
# (iv) slice_bytes
# ---------------------------------------------------------------------------


def check_bytes_case(num, den, sx, sy):
    m = ss()
    st = mk_state(sx=sx, sy=sy, num=num, den=den)
    vals = [m.slice_bytes(st, x, y) for y in range(sy) for x in range(sx)]
    problems = []
    if any(v < 0 for v in vals):
        problems.append("negative slice_bytes: %r" % (vals,))
    want_sum = R.ld_picture_bytes(sx * sy, num, den)
    if sum(vals) != want_sum:
        problems.append("slice_bytes sum to %d, floor(%d*%d/%d) = %d" % (sum(vals), sx * sy, num, den, want_sum))
    want = [R.ld_slice_bytes(k, num, den) for k in range(sx * sy)]
    if not problems and vals != want:
        problems.append("slice_bytes %r differ from floor((k+1)n/d)-floor(kn/d) = %r" % (vals, want))
    return problems, len(set(want)) > 1


def _bytes_shard(arg):
    _, den, nmax, smax = arg
    m = ss()
    fn = m.slice_bytes
    t = Tally()
    n = n_nontrivial = n_calls = 0
    for num in range(0, nmax + 1):
        want_all = [R.ld_slice_bytes(k, num, den) for k in range(smax * smax)]
        for sx in range(1, smax + 1):
            for sy in range(1, smax + 1):
                st = mk_state(sx=sx, sy=sy, num=num, den=den)
                vals = [fn(st, x, y) for y in range(sy) for x in range(sx)]
                cnt = sx * sy
                n += 1
                n_calls += cnt
                if vals != want_all[:cnt] or sum(vals) != (cnt * num) // den or min(vals) < 0:
                    p, _ = check_bytes_case(num, den, sx, sy)
                    t.violation(p[0] if p else "fast/slow path disagree", {"kind": "bytes", "num": num, "den": den, "sx": sx, "sy": sy})
                if num % den and cnt > 1 and len(set(vals)) > 1:
                    n_nontrivial += 1
    t.count("bytes_cases", n)
    t.count("bytes_calls", n_calls)
    t.count("bytes_nonuniform", n_nontrivial)
    return t


# ---------------------------------------------------------------------------


# ---------------------------------------------------------------------------
# (v) call-order independence: configuration A evaluated, then configuration B on a fresh state
# ---------------------------------------------------------------------------
ORDER_DIMS = ((6, 6, 3, 3), (5, 7, 5, 7), (8, 4, 4, 2), (12, 10, 6, 10), (1, 3, 2, 2),
              # dimensions beyond the exact range of a double (2^53) and of a machine word
              ((1 << 53) + 1, (1 << 53) + 3, (1 << 52) + 1, (1 << 52) + 1), ((1 << 64) + 5, (1 << 70) + 9, (1 << 63) + 3, (1 << 69) + 5), ((1 << 200) + 7, 3, (1 << 199) + 3, 2))
ORDER_SLICES = ((1, 1), (2, 3))
ORDER_DEPTHS = [(d, dh) for d in range(4) for dh in range(4)]


def eval_config(dims, slices, depth):
    """Every subband size and slice bound of one configuration, from the implementation."""
    m = ss()
    lw, lh, cw, ch = dims
    d, dh = depth
    st = mk_state(lw=lw, lh=lh, cw=cw, ch=ch, d=d, dh=dh, sx=slices[0], sy=slices[1])
    out = []
    for comp in COMPS:
        for level in range(d + dh + 1):
            out.append((m.subband_width(st, level, comp), m.subband_height(st, level, comp)))
            out.append(tuple(m.slice_left(st, s, comp, level) for s in range(slices[0])) + tuple(m.slice_right(st, s, comp, level) for s in range(slices[0])))
            out.append(tuple(m.slice_top(st, s, comp, level) for s in range(slices[1])) + tuple(m.slice_bottom(st, s, comp, level) for s in range(slices[1])))
    out.append(m.slices_have_same_dimensions(st))
    return out


def ref_config(dims, slices, depth):
    lw, lh, cw, ch = dims
    d, dh = depth
    out = []
    for comp in COMPS:
        w, h = (lw, lh) if comp == "Y" else (cw, ch)
        sd = R.subband_dims(w, h, d, dh)
        for level in range(d + dh + 1):
            sw, sh = sd[level]
            ex, ey = R.edges(sw, slices[0]), R.edges(sh, slices[1])
            out.append((sw, sh))
            out.append(tuple(ex[:-1]) + tuple(ex[1:]))
            out.append(tuple(ey[:-1]) + tuple(ey[1:]))
    out.append(R.same_dimensions((lw, lh), (cw, ch), d, dh, slices[0], slices[1]))
    return out


def check_order_case(dims, slices, a, b):
    eval_config(dims, slices, a)
    got, want = eval_config(dims, slices, b), ref_config(dims, slices, b)
    if got != want:
        k = next(i for i, (x, y) in enumerate(zip(got, want)) if x != y)
        return ["after evaluating depths %r, configuration %r dims %r slices %r: item %d is %r, reference %r" % (a, b, dims, slices, k, got[k], want[k])]
    return []


def _order_shard(arg):
    _, dims = arg
    t = Tally()
    for slices in ORDER_SLICES:
        for a in ORDER_DEPTHS:
            for b in ORDER_DEPTHS:
                t.count("order_cases")
                p = check_order_case(dims, slices, a, b)
                if p:
                    t.violation(p[0], {"kind": "order", "dims": list(dims), "slices": list(slices), "a": list(a), "b": list(b)})
    return t


def _dispatch(arg):
    return {"axis": _axis_shard, "flag": _flag_shard, "shape": _shape_shard, "bytes": _bytes_shard, "order": _order_shard}[arg[0]](arg)


def run(ctx):
    if ctx.quick:
        b = dict(extent=64, d=4, dh=4, slices=80, flag_wh=24, flag_dep=3, flag_slices=8, shape_wh=10, shape_d=3, shape_dh=3, bytes_num=300, bytes_den=60, bytes_slices=12)
    else:
        b = dict(extent=160, d=4, dh=4, slices=200, flag_wh=32, flag_dep=3, flag_slices=10, shape_wh=16, shape_d=4, shape_dh=4, bytes_num=400, bytes_den=80, bytes_slices=14)
    shards = []
    for axis in ("x", "y"):
        for extent in range(1, b["extent"] + 1):
            for comp in COMPS:
                shards.append(("axis", axis, extent, b["extent"], b["d"], b["dh"], b["slices"], (comp,)))
    for den in range(1, b["bytes_den"] + 1):
        shards.append(("bytes", den, b["bytes_num"], b["bytes_slices"]))
    for fmt in FORMATS:
        for w in range(1, b["flag_wh"] + 1):
            shards.append(("flag", fmt, w, b["flag_wh"], b["flag_dep"], b["flag_slices"]))
    for w in range(1, b["shape_wh"] + 1):
        shards.append(("shape", w, b["shape_wh"], b["shape_d"], b["shape_dh"]))
    for dims in ORDER_DIMS:
        shards.append(("order", dims))
    rot = ctx.seed % len(shards)
    shards = shards[rot:] + shards[:rot]
    total = pool.map_shards(_dispatch, shards)

    n_levels = sum(d + dh + 1 for d in range(b["d"] + 1) for dh in range(b["dh"] + 1))
    sizes = {
        "axis_cases": (total.n["axis_cases"], 2 * b["extent"] * len(COMPS) * b["slices"] * n_levels),
        "flag_cases": (total.n["flag_cases"], len(FORMATS) * b["flag_wh"] ** 2 * (b["flag_dep"] + 1) ** 2 * b["flag_slices"] ** 2),
        "shape_cases": (total.n["shape_cases"], b["shape_wh"] ** 2 * (b["shape_d"] + 1) * (b["shape_dh"] + 1)),
        "bytes_cases": (total.n["bytes_cases"], (b["bytes_num"] + 1) * b["bytes_den"] * b["bytes_slices"] ** 2),
        "order_cases": (total.n["order_cases"], len(ORDER_DIMS) * len(ORDER_SLICES) * len(ORDER_DEPTHS) ** 2),
    }
    exhaustive = True
    for name, (got, want) in sorted(sizes.items()):
        if got != want:
            exhaustive = False
            total.error("sub-space %s: evaluated %d, computed size %d" % (name, got, want))
    if not (total.hist["flag"]["same"] and total.hist["flag"]["different"]):
        total.error("vacuous: flag outcomes %r" % dict(total.hist["flag"]))
    if not (total.n["axis_nonuniform"] and total.n["axis_with_empty_slices"] and total.n["bytes_nonuniform"]):
        total.error("vacuous: no non-uniform partitions enumerated")

    total.sample("axis", {"kind": "axis", "axis": "x", "comp": "Y", "extent": 5, "other": b["extent"] - 4, "d": 1, "dh": 2, "slices": 7, "level": 2})
    total.sample("axis", {"kind": "axis", "axis": "y", "comp": "C2", "extent": 3, "other": b["extent"] - 2, "d": 2, "dh": 1, "slices": b["slices"], "level": 0})
    total.sample("flag", {"kind": "flag", "fmt": "420", "w": 12, "h": 6, "d": 1, "dh": 0, "sx": 3, "sy": 3})
    total.sample("bytes", {"kind": "bytes", "num": 7, "den": 3, "sx": 4, "sy": 3})
    total.sample("shape", {"kind": "shape", "w": 5, "h": 3, "d": 2, "dh": 1})

    cov = {
        "evaluations": sum(got for got, _ in sizes.values()),
        "distinct_nontrivial": total.n["axis_nonuniform"] + total.hist["flag"]["different"] + total.n["bytes_nonuniform"],
        "rule": "non-trivial = the slices of the case are not all the same size (subband extent not a multiple of the slice count; flag false by definition; numerator not a multiple of the denominator with unequal slice bytes); each (axis, component, extent, depths, slices, level) / flag / bytes case is enumerated exactly once",
        "exhaustive": exhaustive,
        "bounds": b,
        "subspace_sizes": {k: v[0] for k, v in sizes.items()},
        "implementation_calls": total.n["axis_calls"] + total.n["bytes_calls"],
    }
    return total, cov


def replay_case(case):
    kind = case["kind"]
    g = lambda k: int(case[k])  # noqa: E731
    if kind == "axis":
        return check_axis_case(case["axis"], case["comp"], g("extent"), g("other"), g("d"), g("dh"), g("slices"), g("level"))[0]
    if kind == "flag":
        return check_flag_case(case["fmt"], g("w"), g("h"), g("d"), g("dh"), g("sx"), g("sy"))[0]
    if kind == "shape":
        return check_shape_case(g("w"), g("h"), g("d"), g("dh"))
    if kind == "bytes":
        return check_bytes_case(g("num"), g("den"), g("sx"), g("sy"))[0]
    if kind == "order":
        return check_order_case(tuple(case["dims"]), tuple(case["slices"]), tuple(case["a"]), tuple(case["b"]))
    raise ValueError(kind)
