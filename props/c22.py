"""C22 -- picture generators produce well-formed pictures for any regular format.

Exhaustive products over video-format dimensions (DESIGN.md section 6, C22):
every generator x {all pairs of format dimensions crossed in full, the full
"structural" product size x subsampling x scan x coding mode x field order x
signal range, the full "colour" product subsampling x signal range x primaries
x matrix x transfer function}.  Irregular formats (frame size not a multiple
of the subsampling / twice the vertical subsampling for interlaced sources or
field coding) are outside the property and only counted.

Oracle (from the property statement and the generators' docstrings, computed
without repository code): at least one picture, the documented number of
frames (x2 pictures when pictures are fields, hence even), ``pic_num`` =
0, 1, 2, ...; each component a list of lists of exactly the coded size; every
sample a Python ``int`` in [0, 2^depth - 1] with depth = bit length of the
excursion; ``mid_gray`` is 2^(depth-1) everywhere.
"""
import copy
import os

import mc
from mc import pool, space
from mc.tally import Tally

PROPERTY = "C22"
LEVEL = "exploration"
ASSUMPTIONS = [
    "bit depths up to 31 (white_noise draws from an int64 generator; depths > 32 are outside the stated bound)",
    "frame sizes up to 130x4 / 18x12; default generator arguments (moving_sprite: 10 frames, white_noise: 1 frame, seed 0)",
    "real_pictures runs on the three 32x32-ish test images of /repo/tests/test_images (swapped in like tests/smaller_real_pictures.py), not on the multi-megapixel natural pictures",
    "vc2_data_tables enumerations and preset signal ranges are trusted data",
    "picture_generators.read_as_xyz(filename) is memoised per worker process (pure function of constant files; executed for real once per file and process)",
    "formats that violate the regularity precondition are counted, not executed",
]

GENERATORS = ["moving_sprite", "static_sprite", "linear_ramps", "mid_gray", "white_noise", "real_pictures", "repeat_pictures"]
EXPECTED_FRAMES = {
    "moving_sprite": 10,  # "By default the sequence is 10 frames long"
    "static_sprite": 1,  # "exactly one frame"
    "linear_ramps": 1,  # "exactly one frame"
    "mid_gray": 1,  # "exactly one empty mid-gray frame"
    "white_noise": 1,  # "By default a single frame is produced"
    "real_pictures": 3,  # one frame per (swapped-in) picture file
    "repeat_pictures": 3,  # static_sprite repeated 3 times
}

SIZES = [(2, 2), (4, 4), (6, 4), (4, 6), (8, 4), (18, 12), (130, 4)]
COLOUR_SIZES = [(4, 4), (18, 12)]
CUSTOM_RANGES = [
    (0, 1, 1, 1),  # 1 bit
    (0, 1, 128, 255),  # 1 bit luma, 8 bit colour difference
    (64, 100, 0, 100),  # 7 bits, white and negative colour differences clip
    (8, 100, 64, 100),  # 7 bits
    (0, 511, 256, 511),  # 9 bits
    (0, 1023, 128, 255),  # 10 bit luma, 8 bit colour difference
    (256, 3504, 65536, 131071),  # 12 bit luma, 17 bit colour difference
    (0, 131071, 65536, 131071),  # 17 bits
    (0, (1 << 31) - 1, 1 << 30, (1 << 31) - 1),  # 31 bits
    (1 << 28, (1 << 30) + 5, 1 << 30, (1 << 30) + 5),  # 31 bits, partial excursion
]
PARS = [(1, 1), (12, 11), (4, 3)]

TEST_PICTURES = ["/repo/tests/test_images/%s.raw" % n for n in ("square", "wide", "tall")]


def signal_ranges():
    import vc2_data_tables as t

    out = []
    for k in sorted(t.PRESET_SIGNAL_RANGES, key=int):
        r = t.PRESET_SIGNAL_RANGES[k]
        out.append((r.luma_offset, r.luma_excursion, r.color_diff_offset, r.color_diff_excursion))
    return out + list(CUSTOM_RANGES)


def domains():
    import vc2_data_tables as t

    return {
        "size": list(SIZES),
        "cformat": [0, 1, 2],
        "ss": [0, 1],
        "pcm": [0, 1],
        "tff": [True, False],
        "range": signal_ranges(),
        "primaries": sorted(int(x) for x in t.PresetColorPrimaries),
        "matrix": sorted(int(x) for x in t.PresetColorMatrices),
        "tf": sorted(int(x) for x in t.PresetTransferFunctions),
        "par": list(PARS),
        # index-valued entries as enum members, or as the plain integers the library's own
        # sequence-header parser stores for custom values (decoder/sequence_header.py read_uint)
        "types": ["enum", "int"],
    }


DEFAULTS = {
    "size": (8, 4),
    "cformat": 1,
    "ss": 0,
    "pcm": 0,
    "tff": True,
    "range": (64, 876, 512, 896),
    "primaries": 0,
    "matrix": 0,
    "tf": 0,
    "par": (1, 1),
    "types": "enum",
}
DIM_ORDER = ["size", "cformat", "ss", "pcm", "tff", "range", "primaries", "matrix", "tf", "par", "types"]


def is_regular(cfg):
    """The property's precondition."""
    w, h = cfg["size"]
    hsub = 2 if cfg["cformat"] in (1, 2) else 1
    vsub = 2 if cfg["cformat"] == 2 else 1
    if cfg["ss"] == 1 or cfg["pcm"] == 1:
        vsub *= 2
    return w % hsub == 0 and h % vsub == 0


def ref_dims(cfg):
    """Coded size and depth of each component (11.6.2 / 11.6.3), independently."""
    w, h = cfg["size"]
    cw, ch = w, h
    if cfg["cformat"] in (1, 2):
        cw //= 2
    if cfg["cformat"] == 2:
        ch //= 2
    if cfg["pcm"] == 1:
        h //= 2
        ch //= 2
    lo, le, co, ce = cfg["range"]
    return {"Y": (w, h, int(le).bit_length()), "C1": (cw, ch, int(ce).bit_length()), "C2": (cw, ch, int(ce).bit_length())}


def make_vp(cfg):
    from vc2_conformance.pseudocode.video_parameters import VideoParameters
    import vc2_data_tables as t

    w, h = cfg["size"]
    lo, le, co, ce = cfg["range"]
    if cfg.get("types", "enum") == "int":
        return VideoParameters(
            frame_width=w,
            frame_height=h,
            color_diff_format_index=int(cfg["cformat"]),
            source_sampling=int(cfg["ss"]),
            top_field_first=bool(cfg["tff"]),
            frame_rate_numer=25,
            frame_rate_denom=1,
            pixel_aspect_ratio_numer=cfg["par"][0],
            pixel_aspect_ratio_denom=cfg["par"][1],
            clean_width=w,
            clean_height=h,
            left_offset=0,
            top_offset=0,
            luma_offset=lo,
            luma_excursion=le,
            color_diff_offset=co,
            color_diff_excursion=ce,
            color_primaries_index=int(cfg["primaries"]),
            color_matrix_index=int(cfg["matrix"]),
            transfer_function_index=int(cfg["tf"]),
        )
    return VideoParameters(
        frame_width=w,
        frame_height=h,
        color_diff_format_index=t.ColorDifferenceSamplingFormats(cfg["cformat"]),
        source_sampling=t.SourceSamplingModes(cfg["ss"]),
        top_field_first=bool(cfg["tff"]),
        frame_rate_numer=25,
        frame_rate_denom=1,
        pixel_aspect_ratio_numer=cfg["par"][0],
        pixel_aspect_ratio_denom=cfg["par"][1],
        clean_width=w,
        clean_height=h,
        left_offset=0,
        top_offset=0,
        luma_offset=lo,
        luma_excursion=le,
        color_diff_offset=co,
        color_diff_excursion=ce,
        color_primaries_index=t.PresetColorPrimaries(cfg["primaries"]),
        color_matrix_index=t.PresetColorMatrices(cfg["matrix"]),
        transfer_function_index=t.PresetTransferFunctions(cfg["tf"]),
    )


_INSTALLED = False


def install_small_pictures():
    """Swap the natural pictures for the tiny test pictures (in place)."""
    global _INSTALLED
    if _INSTALLED:
        return
    from vc2_conformance_data import NATURAL_PICTURES_FILENAMES

    for p in TEST_PICTURES:
        if not os.path.isfile(p):
            raise RuntimeError("test picture %s missing" % p)
    del NATURAL_PICTURES_FILENAMES[:]
    NATURAL_PICTURES_FILENAMES.extend(TEST_PICTURES)

    # Memoise read_as_xyz(filename): a pure function of constant files (the
    # 128x128 pointer sprite, the test pictures) that dominates the run time.
    # Each worker process still executes the real function once per file and
    # every caller gets a private copy.
    from vc2_conformance import picture_generators as pg

    real_read_as_xyz = pg.read_as_xyz
    cache = {}

    def read_as_xyz(filename):
        if filename not in cache:
            cache[filename] = real_read_as_xyz(filename)
        xyz, vp, pcm = cache[filename]
        return xyz.copy(), vp.copy(), pcm

    pg.read_as_xyz = read_as_xyz
    _INSTALLED = True


def call_generator(gen, vp, pcm):
    from vc2_conformance import picture_generators as pg
    from vc2_data_tables import PictureCodingModes

    mode = PictureCodingModes(pcm)
    if gen == "repeat_pictures":
        return pg.repeat_pictures(pg.static_sprite(vp, mode), 3)
    return getattr(pg, gen)(vp, mode)


def check_config(cfg):
    """Run one generator on one format.  Returns (problems, nontrivial)."""
    install_small_pictures()
    gen = cfg["gen"]
    dims = ref_dims(cfg)
    vp = make_vp(cfg)
    vp_before = dict(vp)
    try:
        # consume lazily, as the encoder does: take a picture, use it up (the library's own
        # picture_encode works in place on what it is given), only then ask for the next one
        pictures = []
        for pic in call_generator(gen, vp, cfg["pcm"]):
            pictures.append(copy.deepcopy(pic))
            if isinstance(pic, dict):
                for c in ("Y", "C1", "C2"):
                    rows = pic.get(c)
                    if type(rows) is list:
                        for r in rows:
                            if type(r) is list:
                                for i in range(len(r)):
                                    r[i] = -7
                                r.append(-7)
                        rows.append([-7])
                pic["pic_num"] = -1
    except Exception as e:  # noqa
        return ["%s raised %s: %s" % (gen, type(e).__name__, e)], False
    problems = []
    if dict(vp) != vp_before:
        problems.append("generator modified the video parameters")
    n = len(pictures)
    if n < 1:
        return ["no pictures generated"], False
    if cfg["pcm"] == 1 and n % 2:
        problems.append("%d pictures (odd) although pictures are fields" % n)
    want_n = EXPECTED_FRAMES[gen] * (2 if cfg["pcm"] == 1 else 1)
    if n != want_n:
        problems.append("%d pictures, documented %d frames = %d pictures" % (n, EXPECTED_FRAMES[gen], want_n))
    values = set()
    for i, pic in enumerate(pictures):
        if not isinstance(pic, dict) or sorted(pic) != ["C1", "C2", "Y", "pic_num"]:
            problems.append("picture %d has keys %r" % (i, sorted(pic) if isinstance(pic, dict) else type(pic).__name__))
            break
        if type(pic["pic_num"]) is not int or pic["pic_num"] != i:
            problems.append("picture %d is numbered %r" % (i, pic["pic_num"]))
        for c in ("Y", "C1", "C2"):
            w, h, depth = dims[c]
            rows = pic[c]
            if type(rows) is not list or len(rows) != h or any(type(r) is not list or len(r) != w for r in rows):
                got = (len(rows[0]) if len(rows) and hasattr(rows[0], "__len__") else "?", len(rows)) if hasattr(rows, "__len__") else type(rows).__name__
                problems.append("picture %d %s is %r (w, h), coded size is %r" % (i, c, got, (w, h)))
                continue
            top = (1 << depth) - 1
            for y, r in enumerate(rows):
                for x, v in enumerate(r):
                    if type(v) is not int:
                        problems.append("picture %d %s[%d][%d] = %r is a %s" % (i, c, y, x, v, type(v).__name__))
                        break
                    if v < 0 or v > top:
                        problems.append("picture %d %s[%d][%d] = %d outside [0, %d]" % (i, c, y, x, v, top))
                        break
                    if gen == "mid_gray" and v != 1 << (depth - 1):
                        problems.append("mid_gray %s[%d][%d] = %d, half-way value is %d" % (c, y, x, v, 1 << (depth - 1)))
                        break
                else:
                    values.update(r)
                    continue
                break
        if len(problems) > 4:
            break
    return problems, len(values) > 1


# ----------------------------------------------------------------------------
# Spaces
# ----------------------------------------------------------------------------


def spaces(quick):
    """name -> (list of dimension names, list of domains) ; gen is always first."""
    d = domains()
    out = {}
    out["structural"] = (
        ["gen", "size", "cformat", "ss", "pcm", "tff", "range"] + ([] if quick else ["par", "types"]),
        [GENERATORS, d["size"], d["cformat"], d["ss"], d["pcm"], d["tff"], d["range"]] + ([] if quick else [d["par"], d["types"]]),
    )
    if quick:
        out["colour"] = (
            ["gen", "cformat", "range", "primaries", "matrix", "tf"],
            [GENERATORS, d["cformat"], d["range"], d["primaries"], d["matrix"], d["tf"]],
        )
    else:
        out["colour"] = (
            ["gen", "size", "cformat", "ss", "pcm", "range", "primaries", "matrix", "tf"],
            [GENERATORS, COLOUR_SIZES, d["cformat"], d["ss"], d["pcm"], d["range"], d["primaries"], d["matrix"], d["tf"]],
        )
    pw = list(space.pairwise_full(DEFAULTS, d))
    out["pairwise"] = (["gen", "format"], [GENERATORS, pw])
    return out


def config_at(names, values):
    cfg = dict(DEFAULTS)
    for n, v in zip(names, values):
        if n == "format":
            cfg.update(v)
        else:
            cfg[n] = v
    return cfg


_SPACES = None


def _shard(arg):
    name, offset, stride = arg
    names, doms = _SPACES[name]
    t = Tally()
    for _i, values in space.product_shard(doms, offset, stride):
        cfg = config_at(names, values)
        t.count("enumerated")
        if not is_regular(cfg):
            t.count("irregular_out_of_scope")
            continue
        problems, nontrivial = check_config(cfg)
        t.count("evaluations")
        t.count("evaluations_" + name)
        key = mc.tally.dumps(cfg)
        t.outcome("generator", cfg["gen"] if not problems else "VIOLATION")
        d = ref_dims(cfg)
        t.outcome("depths", "%d/%d" % (d["Y"][2], d["C1"][2]))
        if problems:
            t.violation(problems[0], cfg)
        else:
            t.distinct("configs", key)
            if nontrivial:
                t.distinct("nontrivial", key)
            if name == "pairwise" and cfg == dict(DEFAULTS, gen=cfg["gen"], size=(130, 4), pcm=1):
                t.sample(cfg["gen"], cfg)  # exactly one configuration per generator
    return t


def run(ctx):
    global _SPACES
    install_small_pictures()
    _SPACES = spaces(ctx.quick)
    shards = []
    sizes = {}
    for name in sorted(_SPACES):
        n = space.product_size(_SPACES[name][1])
        sizes[name] = n
        k = 64 if n > 5000 else 32
        shards += [(name, off, st) for off, st in pool.strided(n, k)]
    r = ctx.seed % len(shards)
    shards = shards[r:] + shards[:r]
    total = pool.map_shards(_shard, shards)
    expected = sum(sizes.values())
    if total.n["enumerated"] != expected and not total.errors:
        total.error("enumerated %d configurations, the spaces hold %d" % (total.n["enumerated"], expected))
    if total.n["evaluations"] + total.n["irregular_out_of_scope"] != total.n["enumerated"] and not total.errors:
        total.error("evaluated + out of scope != enumerated")
    if not total.violation_count:
        if len(total.hist["generator"]) != len(GENERATORS) or len(total.hist["depths"]) < 10:
            total.error("vacuous: generators %r, depth classes %d" % (sorted(total.hist["generator"]), len(total.hist["depths"])))
        if total.n["evaluations"] * 2 < total.n["enumerated"]:
            total.error("vacuous: fewer than half of the enumerated formats are regular")
    cov = {
        "evaluations": total.n["evaluations"],
        "distinct_nontrivial": total.ndistinct("nontrivial"),
        "rule": "distinct (generator, format) pairs for which the generated pictures contain at least two different sample values (i.e. not a flat picture)",
        "exhaustive": total.n["enumerated"] == expected and not total.errors,
        "bounds": {
            "generators": GENERATORS,
            "sizes": [list(s) for s in SIZES],
            "signal_ranges(luma_offset,luma_excursion,color_diff_offset,color_diff_excursion)": [list(r) for r in signal_ranges()],
            "pixel_aspect_ratios": [list(p) for p in PARS],
            "spaces": {n: {"dimensions": _SPACES[n][0], "size": sizes[n]} for n in sorted(_SPACES)},
            "pairwise": "every pair of the 10 format dimensions crossed in full, others at defaults %r" % (DEFAULTS,),
            "colour_sizes": [list(DEFAULTS["size"])] if ctx.quick else [list(s) for s in COLOUR_SIZES],
            "distinct_configurations": total.ndistinct("configs"),
            "irregular_out_of_scope": total.n["irregular_out_of_scope"],
            "max_depth_bits": 31,
        },
    }
    return total, cov


def replay_case(case):
    cfg = dict(case)
    for k in ("size", "range", "par"):
        cfg[k] = tuple(cfg[k])
    cfg["tff"] = bool(cfg["tff"])
    problems, _ = check_config(cfg)
    return problems
