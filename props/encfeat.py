"""Helpers for encoder-side drivers: building CodecFeatures, pictures, encode/decode."""
import io

import mc  # noqa
from mc import vc2run


def video_parameters(**kw):
    from vc2_conformance.pseudocode.video_parameters import VideoParameters
    from vc2_data_tables import (
        ColorDifferenceSamplingFormats as CDSF,
        SourceSamplingModes,
        PresetColorPrimaries,
        PresetColorMatrices,
        PresetTransferFunctions,
    )

    w = kw.pop("frame_width", 8)
    h = kw.pop("frame_height", 4)
    vp = dict(
        frame_width=w,
        frame_height=h,
        color_diff_format_index=CDSF(kw.pop("color_diff_format_index", 0)),
        source_sampling=SourceSamplingModes(kw.pop("source_sampling", 0)),
        top_field_first=kw.pop("top_field_first", True),
        frame_rate_numer=kw.pop("frame_rate_numer", 1),
        frame_rate_denom=kw.pop("frame_rate_denom", 1),
        pixel_aspect_ratio_numer=kw.pop("pixel_aspect_ratio_numer", 1),
        pixel_aspect_ratio_denom=kw.pop("pixel_aspect_ratio_denom", 1),
        clean_width=kw.pop("clean_width", w),
        clean_height=kw.pop("clean_height", h),
        left_offset=kw.pop("left_offset", 0),
        top_offset=kw.pop("top_offset", 0),
        luma_offset=kw.pop("luma_offset", 0),
        luma_excursion=kw.pop("luma_excursion", 255),
        color_diff_offset=kw.pop("color_diff_offset", 128),
        color_diff_excursion=kw.pop("color_diff_excursion", 255),
        color_primaries_index=PresetColorPrimaries(kw.pop("color_primaries_index", 0)),
        color_matrix_index=PresetColorMatrices(kw.pop("color_matrix_index", 0)),
        transfer_function_index=PresetTransferFunctions(kw.pop("transfer_function_index", 0)),
    )
    assert not kw, kw
    return VideoParameters(vp)


def custom_quant_matrix(dwt_depth, dwt_depth_ho, base=0):
    """A small deterministic custom quantisation matrix of the right shape."""
    m = {}
    if dwt_depth_ho == 0:
        m[0] = {"LL": base}
    else:
        m[0] = {"L": base}
        for lv in range(1, dwt_depth_ho + 1):
            m[lv] = {"H": base + lv % 3}
    for lv in range(dwt_depth_ho + 1, dwt_depth_ho + dwt_depth + 1):
        m[lv] = {"HL": base + 1 + lv % 2, "LH": base + 1 + lv % 2, "HH": base + 2 + lv % 2}
    return m


def has_default_quant_matrix(wi, wiho, dd, ddho):
    from vc2_data_tables import QUANTISATION_MATRICES

    return (wi, wiho, dd, ddho) in QUANTISATION_MATRICES


def make_cf(name="cf", profile=3, lossless=False, level=0, picture_coding_mode=0, wavelet_index=4, wavelet_index_ho=None, dwt_depth=1, dwt_depth_ho=0, slices_x=2, slices_y=1, fragment_slice_count=0, picture_bytes="auto", quantization_matrix="auto", vp=None, plain_ints=False, **vpkw):
    from vc2_conformance.codec_features import CodecFeatures
    from vc2_data_tables import Levels, Profiles, PictureCodingModes, WaveletFilters

    if wavelet_index_ho is None:
        wavelet_index_ho = wavelet_index
    if vp is None:
        vp = video_parameters(**vpkw)
    if quantization_matrix == "auto":
        quantization_matrix = None if has_default_quant_matrix(wavelet_index, wavelet_index_ho, dwt_depth, dwt_depth_ho) else custom_quant_matrix(dwt_depth, dwt_depth_ho)
    elif quantization_matrix == "custom":
        quantization_matrix = custom_quant_matrix(dwt_depth, dwt_depth_ho, 1)
    if lossless:
        picture_bytes = None
    elif picture_bytes == "auto":
        picture_bytes = 24 * slices_x * slices_y
    if plain_ints:
        # index-valued entries as plain integers (IntEnum members compare equal to them)
        return CodecFeatures(
            name=name,
            level=int(level),
            profile=int(profile),
            picture_coding_mode=int(picture_coding_mode),
            video_parameters=vp,
            wavelet_index=int(wavelet_index),
            wavelet_index_ho=int(wavelet_index_ho),
            dwt_depth=dwt_depth,
            dwt_depth_ho=dwt_depth_ho,
            slices_x=slices_x,
            slices_y=slices_y,
            fragment_slice_count=fragment_slice_count,
            lossless=lossless,
            picture_bytes=picture_bytes,
            quantization_matrix=quantization_matrix,
        )
    return CodecFeatures(
        name=name,
        level=Levels(level),
        profile=Profiles(profile),
        picture_coding_mode=PictureCodingModes(picture_coding_mode),
        video_parameters=vp,
        wavelet_index=WaveletFilters(wavelet_index),
        wavelet_index_ho=WaveletFilters(wavelet_index_ho),
        dwt_depth=dwt_depth,
        dwt_depth_ho=dwt_depth_ho,
        slices_x=slices_x,
        slices_y=slices_y,
        fragment_slice_count=fragment_slice_count,
        lossless=lossless,
        picture_bytes=picture_bytes,
        quantization_matrix=quantization_matrix,
    )


def picture_geometry(cf):
    """Independent computation: ((luma_w, luma_h), (chroma_w, chroma_h), luma_depth, chroma_depth)."""
    vp = cf["video_parameters"]
    w, h = vp["frame_width"], vp["frame_height"]
    if int(cf["picture_coding_mode"]) == 1:
        h //= 2
    cw, ch = w, h
    cdf = int(vp["color_diff_format_index"])
    if cdf in (1, 2):
        cw //= 2
    if cdf == 2:
        ch //= 2
    ld = (vp["luma_excursion"]).bit_length() if vp["luma_excursion"] + 1 > 1 else 0
    ld = (vp["luma_excursion"] + 1 - 1).bit_length()
    cd = (vp["color_diff_excursion"] + 1 - 1).bit_length()
    return (w, h), (cw, ch), ld, cd


def make_picture(cf, content, pic_num=None, k=0):
    """Deterministic picture content.  content in grey|min|max|checker|ramp|noise|impulse:<i>"""
    (w, h), (cw, ch), ld, cd = picture_geometry(cf)

    def plane(pw, ph, depth, salt):
        mx = (1 << depth) - 1
        mid = 1 << (depth - 1) if depth else 0
        if content == "grey":
            f = lambda x, y: mid  # noqa
        elif content == "min":
            f = lambda x, y: 0  # noqa
        elif content == "max":
            f = lambda x, y: mx  # noqa
        elif content == "checker":
            f = lambda x, y: mx if (x + y + k) % 2 else 0  # noqa
        elif content == "ramp":
            f = lambda x, y: ((x + y * pw + salt + k) * max(1, mx // max(1, pw * ph))) % (mx + 1)  # noqa
        elif content == "noise":
            # fixed LCG, no global random state
            def f(x, y):
                v = (1103515245 * (x + 31 * y + 977 * salt + 7919 * k + 12345) + 12345) & 0x7FFFFFFF
                v = (1103515245 * v + 12345) & 0x7FFFFFFF
                return (v >> 8) % (mx + 1)
        elif content.startswith("impulse:"):
            i = int(content.split(":")[1])
            f = lambda x, y: mx if (y * pw + x) == i % max(1, pw * ph) else mid  # noqa
        else:
            raise ValueError(content)
        return [[f(x, y) for x in range(pw)] for y in range(ph)]

    p = {"Y": plane(w, h, ld, 0), "C1": plane(cw, ch, cd, 1), "C2": plane(cw, ch, cd, 2)}
    if pic_num is not None:
        p["pic_num"] = pic_num
    return p


def n_pictures_for(cf, frames=1):
    return frames * (2 if int(cf["picture_coding_mode"]) == 1 else 1)


def encode(cf, pictures, *patterns, **kw):
    """make_sequence + autofill_and_serialise_stream -> (sequence, bytes)."""
    from vc2_conformance.encoder import make_sequence
    from vc2_conformance.bitstream import Stream, autofill_and_serialise_stream

    seq = make_sequence(cf, pictures, *patterns, **kw)
    f = io.BytesIO()
    autofill_and_serialise_stream(f, Stream(sequences=[seq]))
    return seq, f.getvalue()


def encode_stream(cf, content="noise", frames=1):
    pics = [make_picture(cf, content, None, k) for k in range(n_pictures_for(cf, frames))]
    return encode(cf, pics)[1]


def corpus_configs():
    """A few real-encoder configurations used as additional fault-enumeration seeds."""
    return [
        make_cf("enc-hq-lossy"),
        make_cf("enc-ld-lossy", profile=0, picture_bytes=20),
        make_cf("enc-hq-lossless-frag", lossless=True, fragment_slice_count=1, dwt_depth=1, dwt_depth_ho=1, wavelet_index=1, wavelet_index_ho=3),
        make_cf("enc-hq-420-fields", picture_coding_mode=1, color_diff_format_index=2, frame_height=8, source_sampling=1),
    ]
