"""C11 -- forward and inverse wavelet transforms reconstruct exactly.

A1: every array over a 5-letter value alphabet up to a length bound through the
real 1-D analysis/synthesis (both orders) for each of the 7 filters, plus impulses
and steps at every position of longer arrays.
A2: every (vertical, horizontal) filter pair x depth pair x picture size x content
family through the real dwt_pad_addition -> dwt -> idwt -> idwt_pad_removal.
Oracle: round-trip identity, subband shapes against both `slice_sizes` and the
reference decomposition, and an independent polyphase reference transform
(models/waveletref.py) for every forward and inverse result.
"""
import importlib

import mc  # noqa: F401
from mc import pool, space
from mc.tally import Tally
from models import sliceref as R
from models import waveletref as W

PROPERTY = "C11"
LEVEL = "exploration"
ASSUMPTIONS = [
    "sample values from the alphabet {-M,-1,0,1,M}, M = 2**20 (lifting is integer arithmetic without value-dependent branches; large M exercises shifts/rounding of large and negative sums)",
    "vc2_data_tables.LIFTING_FILTERS (separate package) is trusted as the statement of the filter parameters",
    "besides the round trip the property asks for, every forward/inverse result is compared with the independent polyphase reference of 15.4 (models/waveletref.py): an edit that changes analysis and synthesis consistently still round-trips but is reported as a difference from the standard's filter",
    "picture sizes, depths and array lengths bounded as in coverage.bounds; nothing is claimed beyond them",
]

M = 1 << 20
ALPHABET = (-M, -1, 0, 1, M)
SMALL_ALPHABET = (-M, 0, 1)  # used one length beyond the full-alphabet bound
FILTERS = tuple(range(7))
IMPULSE_LENGTHS = tuple(range(10, 26, 2))


def enc():
    return importlib.import_module("vc2_conformance.pseudocode.picture_encoding")


def dec():
    return importlib.import_module("vc2_conformance.pseudocode.picture_decoding")


def ssz():
    return importlib.import_module("vc2_conformance.pseudocode.slice_sizes")


# ---------------------------------------------------------------------------
# A1: 1-D
# ---------------------------------------------------------------------------


def _round_trip_first(problems):
    """Report the property's own clause (round trip) before reference differences."""
    rt = [p for p in problems if "!= a for" in p or "!= p:" in p]
    return rt + [p for p in problems if p not in rt]


def check_1d(f, a):
    """Returns (problems, nontrivial?)."""
    E, D = enc(), dec()
    a = list(a)
    problems = []
    b = list(a)
    E.oned_analysis(b, f)
    ref_b = W.analysis_1d(a, f)
    if b != ref_b:
        problems.append("oned_analysis(filter %d, %r) = %r, reference lifting gives %r" % (f, a, b, ref_b))
    c = list(b)
    D.oned_synthesis(c, f)
    if c != a:
        problems.append("oned_synthesis(oned_analysis(a)) != a for filter %d: a=%r analysis=%r back=%r" % (f, a, b, c))
    s = list(a)
    D.oned_synthesis(s, f)
    ref_s = W.synthesis_1d(a, f)
    if s != ref_s:
        problems.append("oned_synthesis(filter %d, %r) = %r, reference lifting gives %r" % (f, a, s, ref_s))
    d = list(s)
    E.oned_analysis(d, f)
    if d != a:
        problems.append("oned_analysis(oned_synthesis(a)) != a for filter %d: a=%r synthesis=%r back=%r" % (f, a, s, d))
    return _round_trip_first(problems), (b != a)


def impulse_arrays(n):
    """+-M impulses and +-M steps at every position of a length-n array."""
    out = []
    for pos in range(n):
        for v in (M, -M):
            imp = [0] * n
            imp[pos] = v
            out.append(imp)
            out.append([0] * pos + [v] * (n - pos))
    return out


def _shard_1d(arg):
    _, f, n, offset, stride, alphabet = arg
    t = Tally()
    cnt = nontrivial = 0
    if n in IMPULSE_LENGTHS and offset == -1:
        arrays = impulse_arrays(n)
    else:
        doms = [alphabet] * n
        arrays = (list(a) for _, a in space.product_shard(doms, offset, stride))
    for a in arrays:
        p, nt = check_1d(f, a)
        cnt += 1
        nontrivial += nt
        if p:
            t.violation(p[0], {"kind": "1d", "filter": f, "a": a})
    t.count("oned_cases", cnt)
    t.count("oned_nontrivial", nontrivial)
    return t


# ---------------------------------------------------------------------------
# A2: 2-D with padding
# ---------------------------------------------------------------------------


def contents(w, h, family):
    """Content descriptors (plain lists), sorted/deterministic."""
    out = [["zeros"], ["const", M], ["const", -M], ["ramp"], ["checker"]]
    if family == "full":
        for y in range(h):
            for x in range(w):
                out.append(["impulse", y, x, M])
                out.append(["impulse", y, x, -M])
    else:  # reduced: corners + centre
        pts = sorted(set([(0, 0), (0, w - 1), (h - 1, 0), (h - 1, w - 1), (h // 2, w // 2)]))
        for y, x in pts:
            out.append(["impulse", y, x, M])
        out.append(["impulse", h - 1, w - 1, -M])
    return out


def make_picture(w, h, desc):
    kind = desc[0]
    if kind == "zeros":
        return [[0] * w for _ in range(h)]
    if kind == "const":
        return [[int(desc[1])] * w for _ in range(h)]
    if kind == "ramp":
        return [[(x + w * y) * 37 - 100 for x in range(w)] for y in range(h)]
    if kind == "checker":
        return [[M if (x + y) % 2 == 0 else -M for x in range(w)] for y in range(h)]
    if kind == "impulse":
        p = [[0] * w for _ in range(h)]
        p[int(desc[1])][int(desc[2])] = int(desc[3])
        return p
    raise ValueError(desc)


def mk_state(wi, wh, d, dh, w, h, comp):
    # the component under test gets (w, h); the other kind a decoy size
    decoy = (h + 1, w + 2)
    lum, col = ((w, h), decoy) if comp == "Y" else (decoy, (w, h))
    return {
        "wavelet_index": wi,
        "wavelet_index_ho": wh,
        "dwt_depth": d,
        "dwt_depth_ho": dh,
        "luma_width": lum[0],
        "luma_height": lum[1],
        "color_diff_width": col[0],
        "color_diff_height": col[1],
    }


def check_2d(wi, wh, d, dh, w, h, comp, desc):
    """Returns (problems, nontrivial?)."""
    E, D, S = enc(), dec(), ssz()
    st = mk_state(wi, wh, d, dh, w, h, comp)
    p = make_picture(w, h, desc)
    problems = []
    q = [list(r) for r in p]
    E.dwt_pad_addition(st, q, comp)
    ref_q = W.pad(p, d, dh)
    if q != ref_q:
        problems.append("dwt_pad_addition gives %dx%d %r, edge-replicated padded picture is %dx%d %r" % (len(q[0]), len(q), q, len(ref_q[0]), len(ref_q), ref_q))
        return problems, False
    # the padded picture object itself goes into dwt (no defensive copy: rows that
    # alias each other after padding must show up); dwt clobbers q, ref_q == q is kept
    coeffs = E.dwt(st, q)
    ref_dims = R.subband_dims(w, h, d, dh)
    if sorted(coeffs.keys()) != sorted(ref_dims.keys()):
        problems.append("dwt levels %r, expected %r" % (sorted(coeffs.keys()), sorted(ref_dims.keys())))
        return problems, False
    for level in sorted(ref_dims):
        if sorted(coeffs[level].keys()) != sorted(R.orientations(level, dh)):
            problems.append("dwt level %d has orientations %r, expected %r" % (level, sorted(coeffs[level].keys()), sorted(R.orientations(level, dh))))
            return problems, False
        sw, sh = S.subband_width(st, level, comp), S.subband_height(st, level, comp)
        for orient in sorted(coeffs[level]):
            band = coeffs[level][orient]
            shape = (len(band[0]) if band else 0, len(band))
            if any(len(r) != shape[0] for r in band):
                problems.append("level %d %s: ragged band" % (level, orient))
            if shape != (sw, sh):
                problems.append("level %d %s: dwt band is %dx%d, subband_width/height give %dx%d" % (level, orient, shape[0], shape[1], sw, sh))
            if shape != ref_dims[level]:
                problems.append("level %d %s: dwt band is %dx%d, decomposition of the padded picture gives %dx%d" % (level, orient, shape[0], shape[1], ref_dims[level][0], ref_dims[level][1]))
    if problems:
        return problems, False
    ref_coeffs = W.analysis_2d(ref_q, wi, wh, d, dh)
    plain = {lv: {o: [list(r) for r in b] for o, b in bands.items()} for lv, bands in coeffs.items()}
    if plain != ref_coeffs:
        for lv in sorted(plain):
            for o in sorted(plain[lv]):
                if plain[lv][o] != ref_coeffs[lv][o]:
                    problems.append("dwt differs from the reference analysis at level %d %s: %r vs %r" % (lv, o, plain[lv][o], ref_coeffs[lv][o]))
                    break
            if problems:
                break
    out = D.idwt(st, coeffs)
    ref_out = W.synthesis_2d(plain, wi, wh, d, dh)
    if [list(r) for r in out] != ref_out:
        problems.append("idwt differs from the reference synthesis of the same coefficients: %r vs %r" % (out, ref_out))
    D.idwt_pad_removal(st, out, comp)
    if out != p:
        problems.append("idwt_pad_removal(idwt(dwt(dwt_pad_addition(p)))) != p: p=%r, got %r" % (p, out))
    flat_in = [v for r in ref_q for v in r]
    flat_out = [v for lv in sorted(plain) for o in sorted(plain[lv]) for r in plain[lv][o] for v in r]
    return _round_trip_first(problems), sorted(flat_in) != sorted(flat_out)


def cases_2d(wi, wh, d, dh, sizes, family):
    for w in sizes:
        for h in sizes:
            for desc in contents(w, h, family):
                yield w, h, "Y", desc
            yield w, h, "C1", ["ramp"]
            yield w, h, "C2", ["ramp"]


def n_cases_2d(sizes, family):
    return sum(len(contents(w, h, family)) + 2 for w in sizes for h in sizes)


def _shard_2d(arg):
    _, wi, wh, d, dh, smax, family = arg
    t = Tally()
    cnt = nontrivial = 0
    for w, h, comp, desc in cases_2d(wi, wh, d, dh, range(1, smax + 1), family):
        p, nt = check_2d(wi, wh, d, dh, w, h, comp, desc)
        cnt += 1
        nontrivial += nt
        if p:
            t.violation(p[0][:1500], {"kind": "2d", "wi": wi, "wh": wh, "d": d, "dh": dh, "w": w, "h": h, "comp": comp, "content": desc})
    t.count("twod_cases_" + family, cnt)
    t.count("twod_nontrivial", nontrivial)
    t.outcome("twod_depths", "%d/%d" % (d, dh), cnt)
    return t


ORDER_CONFIGS = [(wi, wh, d, dh) for (wi, wh) in [(i, i) for i in range(7)] + [(0, 1), (1, 4), (2, 3), (3, 0), (4, 6), (6, 5)] for (d, dh) in ((1, 0), (0, 1), (1, 1), (2, 0))]
ORDER_PICTURES = ((5, 3, ["ramp"]), (6, 6, ["checker"]))


def _shard_order(arg):
    """Call-order independence: configuration A transformed, then configuration B on the same
    picture size in the same process; B's results must not depend on A."""
    _, ai = arg
    t = Tally()
    a = ORDER_CONFIGS[ai]
    for w, h, desc in ORDER_PICTURES:
        for b in ORDER_CONFIGS:
            check_2d(a[0], a[1], a[2], a[3], w, h, "Y", desc)
            p, _ = check_2d(b[0], b[1], b[2], b[3], w, h, "Y", desc)
            t.count("order_cases")
            if p:
                t.violation("after configuration %r: %s" % (a, p[0][:1200]), {"kind": "order", "a": list(a), "b": list(b), "w": w, "h": h, "content": desc})
    return t


# -- one State object, several pictures (what an encoder that keeps its State does) -----------------
SAME_STATE_CONFIGS = [(wi, wh, d, dh) for (wi, wh) in ((0, 0), (1, 1), (4, 4), (1, 4), (6, 2)) for (d, dh) in ((0, 0), (1, 0), (0, 1), (1, 1), (2, 1))]
SAME_STATE_SIZES = ((4, 2), (5, 3), (6, 6))


def check_same_state(cfg, w, h, share):
    """picture_encode(state, A); keep A's transforms; picture_encode(state, B) with the same
    State (or a shallow copy of it): the kept transforms must still be A's and decode to A."""
    import copy as _copy

    from vc2_conformance.pseudocode.state import State

    E, D = enc(), dec()
    wi, wh, d, dh = cfg
    problems = []

    def new_state():
        return State(wavelet_index=wi, wavelet_index_ho=wh, dwt_depth=d, dwt_depth_ho=dh, luma_width=w, luma_height=h, color_diff_width=w, color_diff_height=h, luma_depth=8, color_diff_depth=8)

    pics = []
    for k in range(3):
        pics.append({c: [[(x * (k + 3) + y * 7 + ci * 11 + 29 * k) % 256 for x in range(w)] for y in range(h)] for ci, c in enumerate(("Y", "C1", "C2"))})
    state = new_state()
    kept = []
    for k, pic in enumerate(pics):
        st = state if share == "same" else state.copy()
        E.picture_encode(st, _copy.deepcopy(pic))
        tr = {n: st[n] for n in ("y_transform", "c1_transform", "c2_transform")}
        kept.append((tr, _copy.deepcopy(tr)))
        state = st
    for k, (tr, snapshot) in enumerate(kept):
        if tr != snapshot:
            problems.append("the transform of picture %d, kept by the caller, was modified while picture(s) %s were encoded with the same State" % (k, list(range(k + 1, len(pics)))))
            break
        ds = new_state()
        ds.update(tr)
        ds["current_picture"] = {}
        out = {}
        for n, c in (("y_transform", "Y"), ("c1_transform", "C1"), ("c2_transform", "C2")):
            comp = D.idwt(ds, tr[n])
            D.idwt_pad_removal(ds, comp, c)
            out[c] = [[v + 128 for v in r] for r in comp]
        if out != pics[k]:
            problems.append("kept transform of picture %d no longer decodes to picture %d" % (k, k))
            break
    return problems


def _shard_same_state(arg):
    _, ci = arg
    t = Tally()
    for w, h in SAME_STATE_SIZES:
        for share in ("same", "shallow-copy"):
            t.count("same_state_cases")
            try:
                pr = check_same_state(SAME_STATE_CONFIGS[ci], w, h, share)
            except Exception as e:  # noqa
                pr = ["raised %s: %s" % (type(e).__name__, e)]
            if pr:
                t.violation("State reused (%s) for 3 pictures, configuration %r %dx%d: %s" % (share, SAME_STATE_CONFIGS[ci], w, h, pr[0]), {"kind": "same-state", "cfg": list(SAME_STATE_CONFIGS[ci]), "w": w, "h": h, "share": share})
    return t


# -- pictures wider / taller than any internal strip or buffer size ------------------------------------
WIDE_SIZES = ((255, 2), (256, 2), (257, 2), (300, 3), (513, 2), (1025, 1), (2, 257), (3, 300))
WIDE_CONFIGS = [(1, 1, 1, 0), (4, 4, 2, 0), (0, 3, 1, 1), (6, 6, 0, 2), (2, 5, 1, 2)]


def _shard_wide(arg):
    _, ci = arg
    t = Tally()
    wi, wh, d, dh = WIDE_CONFIGS[ci]
    for w, h in WIDE_SIZES:
        t.count("wide_cases")
        p, _ = check_2d(wi, wh, d, dh, w, h, "Y", ["ramp"])
        if p:
            t.violation("wide picture %dx%d %r: %s" % (w, h, WIDE_CONFIGS[ci], p[0][:600]), {"kind": "2d", "wi": wi, "wh": wh, "d": d, "dh": dh, "w": w, "h": h, "comp": "Y", "content": ["ramp"]})
    return t


def _dispatch(arg):
    if arg[0] == "same-state":
        return _shard_same_state(arg)
    if arg[0] == "wide":
        return _shard_wide(arg)
    if arg[0] == "order":
        return _shard_order(arg)
    return _shard_1d(arg) if arg[0] == "1d" else _shard_2d(arg)


def run(ctx):
    if ctx.quick:
        b = dict(oned_full_alphabet_max_len=6, oned_small_alphabet_len=8, full=dict(d=2, dh=2, size=5), reduced=None)
    else:
        b = dict(oned_full_alphabet_max_len=8, oned_small_alphabet_len=10, full=dict(d=3, dh=2, size=7), reduced=dict(d=4, dh=3, size=5))
    b["oned_impulse_step_lengths"] = list(IMPULSE_LENGTHS)
    shards = []
    expected_1d = 0
    for f in FILTERS:
        for n in range(2, b["oned_full_alphabet_max_len"] + 1, 2):
            stride = 1 if n < 6 else (4 if n == 6 else 32)
            for off in range(stride):
                shards.append(("1d", f, n, off, stride, ALPHABET))
            expected_1d += 5 ** n
        n = b["oned_small_alphabet_len"]
        for off in range(4):
            shards.append(("1d", f, n, off, 4, SMALL_ALPHABET))
        expected_1d += len(SMALL_ALPHABET) ** n
        for n in IMPULSE_LENGTHS:
            shards.append(("1d", f, n, -1, 1, None))
            expected_1d += 4 * n
    expected_2d = {"full": 0, "reduced": 0}
    big = []
    for family in ("reduced", "full"):
        bb = b[family]
        if not bb:
            continue
        for d in range(bb["d"], -1, -1):
            for dh in range(bb["dh"], -1, -1):
                for wi in FILTERS:
                    for wh in FILTERS:
                        big.append(("2d", wi, wh, d, dh, bb["size"], family))
                        expected_2d[family] += n_cases_2d(range(1, bb["size"] + 1), family)
    shards = big + shards + [("order", ai) for ai in range(len(ORDER_CONFIGS))] + [("same-state", ci) for ci in range(len(SAME_STATE_CONFIGS))] + [("wide", ci) for ci in range(len(WIDE_CONFIGS))]
    rot = ctx.seed % len(shards)
    shards = shards[rot:] + shards[:rot]
    total = pool.map_shards(_dispatch, shards)

    sizes = {
        "oned": (total.n["oned_cases"], expected_1d),
        "twod_full": (total.n["twod_cases_full"], expected_2d["full"]),
        "twod_reduced": (total.n["twod_cases_reduced"], expected_2d["reduced"]),
        "order": (total.n["order_cases"], len(ORDER_CONFIGS) ** 2 * len(ORDER_PICTURES)),
        "same_state": (total.n["same_state_cases"], len(SAME_STATE_CONFIGS) * len(SAME_STATE_SIZES) * 2),
        "wide": (total.n["wide_cases"], len(WIDE_CONFIGS) * len(WIDE_SIZES)),
    }
    exhaustive = True
    for name, (got, want) in sorted(sizes.items()):
        if got != want:
            exhaustive = False
            total.error("sub-space %s: evaluated %d, computed size %d" % (name, got, want))
    if total.n["oned_nontrivial"] < 1000 or total.n["twod_nontrivial"] < 1000:
        total.error("vacuous: transforms acted on %d/%d cases only" % (total.n["oned_nontrivial"], total.n["twod_nontrivial"]))

    total.sample("1d", {"kind": "1d", "filter": 5, "a": [M, -1, 0, 1, -M, 0]})
    total.sample("1d", {"kind": "1d", "filter": 6, "a": [0] * 9 + [-M] * 5})
    total.sample("2d", {"kind": "2d", "wi": 0, "wh": 6, "d": 2, "dh": 1, "w": 5, "h": 3, "comp": "Y", "content": ["impulse", 2, 4, -M]})
    total.sample("2d", {"kind": "2d", "wi": 5, "wh": 3, "d": 1, "dh": 2, "w": 1, "h": 1, "comp": "C2", "content": ["ramp"]})
    total.sample("2d", {"kind": "2d", "wi": 2, "wh": 2, "d": 0, "dh": 0, "w": 3, "h": 4, "comp": "Y", "content": ["checker"]})

    cov = {
        "evaluations": sum(got for got, _ in sizes.values()),
        "distinct_nontrivial": total.n["oned_nontrivial"] + total.n["twod_nontrivial"],
        "rule": "non-trivial = the forward transform changed the data (1-D: analysis output differs from the input array; 2-D: the multiset of coefficients differs from the multiset of padded samples); every case of each sub-space is enumerated exactly once",
        "exhaustive": exhaustive,
        "bounds": {
            "filters": "all 7 (1-D); all 49 (vertical, horizontal) pairs (2-D)",
            "same_state": "three pictures encoded with ONE State (and with shallow copies of it), transforms kept by the caller: %d configurations x sizes %r" % (len(SAME_STATE_CONFIGS), list(SAME_STATE_SIZES)),
            "wide": "ramp pictures of sizes %r x configurations %r" % (list(WIDE_SIZES), WIDE_CONFIGS),
            "value_alphabet": list(ALPHABET),
            "oned": "every array in alphabet^n for even n <= %d; every array in {-M,0,1}^%d; +-M impulses and steps at every position for n in %r" % (b["oned_full_alphabet_max_len"], b["oned_small_alphabet_len"], list(IMPULSE_LENGTHS)),
            "twod_full_contents": dict(b["full"], contents="zeros, +-M constant, ramp, checker, +-M impulse at EVERY position (component Y); ramp for C1 and C2", depths="dwt_depth 0..%d x dwt_depth_ho 0..%d" % (b["full"]["d"], b["full"]["dh"]), sizes="w,h in 1..%d" % b["full"]["size"]),
            "twod_reduced_contents": (dict(b["reduced"], contents="zeros, +-M constant, ramp, checker, +M impulse at corners and centre, -M at last sample (Y); ramp for C1, C2", depths="dwt_depth 0..%d x dwt_depth_ho 0..%d" % (b["reduced"]["d"], b["reduced"]["dh"]), sizes="w,h in 1..%d" % b["reduced"]["size"]) if b["reduced"] else None),
        },
        "subspace_sizes": {k: v[0] for k, v in sizes.items()},
    }
    return total, cov


def replay_case(case):
    if case["kind"] == "1d":
        return check_1d(int(case["filter"]), [int(v) for v in case["a"]])[0]
    if case["kind"] == "2d":
        g = lambda k: int(case[k])  # noqa: E731
        return check_2d(g("wi"), g("wh"), g("d"), g("dh"), g("w"), g("h"), case["comp"], list(case["content"]))[0]
    if case["kind"] == "same-state":
        return check_same_state(tuple(case["cfg"]), case["w"], case["h"], case["share"])
    if case["kind"] == "order":
        a, b = case["a"], case["b"]
        check_2d(a[0], a[1], a[2], a[3], int(case["w"]), int(case["h"]), "Y", list(case["content"]))
        return check_2d(b[0], b[1], b[2], b[3], int(case["w"]), int(case["h"]), "Y", list(case["content"]))[0]
    raise ValueError(case["kind"])
