"""C24 -- test case generation is deterministic and schedule-independent.

Stateless exploration of the real worker callables as real processes under a
controlled process scheduler (mc/procsched.py), plus hash-seed / fresh-process
determinism of the whole generator (DESIGN.md section 6, C24).
"""
import contextlib
import hashlib
import io
import itertools
import os
import shutil
import subprocess
import sys
import tempfile

import mc  # noqa
from mc import pool, procsched
from mc.tally import Tally
from props import c24_runner

PROPERTY = "C24"
LEVEL = "model_checking"
ASSUMPTIONS = [
    "workers are real forked processes; scheduling points are the filesystem operations (mkdir, stat, listdir, open for writing, rename/replace/remove) on conflict paths = paths touched by >= 2 workers of which >= 1 mutates (from a recording run of each worker alone); operations on other paths commute with everything other workers do",
    "pairs of workers are interleaved exhaustively, triples with a preemption bound of 2, all workers together under structured schedules only",
    "POSIX semantics of this sandbox's filesystem",
]
CSV = "/repo/tests/sample_codec_features.csv"
CODEC = "minimal"
ROOT = "out"


def tree_digest(root):
    out = {}
    for d, _, names in os.walk(root):
        for n in names:
            p = os.path.join(d, n)
            with open(p, "rb") as f:
                out[os.path.relpath(p, root)] = hashlib.sha1(f.read()).hexdigest()
        if not names and not os.listdir(d):
            out[os.path.relpath(d, root) + "/"] = "dir"
    return out


_WORKERS = None


def get_workers():
    """[(name, callable)] exactly as `vc2-test-case-generator --parallel` emits them (output dir 'out', relative)."""
    global _WORKERS
    if _WORKERS is None:
        import logging

        logging.disable(logging.WARNING)
        c24_runner.swap()
        from vc2_conformance.scripts.vc2_test_case_generator import cli, worker

        buf = io.StringIO()
        with contextlib.redirect_stdout(buf):
            rc = cli.main([CSV, "--parallel", "--codecs", CODEC, "--output", ROOT])
        if rc != 0:
            raise RuntimeError("generator --parallel returned %r" % rc)
        out = []
        for line in buf.getvalue().splitlines():
            if not line.strip():
                continue
            cmd, code = line.split(" ", 1)
            if cmd != "vc2-test-case-generator-worker":
                raise RuntimeError("unexpected command %r" % cmd)
            fn = worker.decode(code.strip())
            # name: <encoder|decoder>:<generator function name>
            part = fn.args[-1] if hasattr(fn, "args") else None
            gen = getattr(part, "args", [None])[0]
            kind = os.path.basename(fn.args[2]) if len(fn.args) > 2 and isinstance(fn.args[2], str) else "?"
            out.append(("%s:%s" % (kind, getattr(gen, "__name__", "?")), fn))
        _WORKERS = out
    return _WORKERS


_RECORD = None


def recordings(scratch):
    """Per-worker (op, path) traces from running each worker alone."""
    global _RECORD
    if _RECORD is None:
        ws = get_workers()
        rec = []
        for i, (name, fn) in enumerate(ws):
            d = os.path.join(scratch, "rec-%d" % i)
            os.makedirs(d)
            ops, status = procsched.record_ops(fn, d, ROOT)
            rec.append((ops, status, tree_digest(os.path.join(d, ROOT))))
            shutil.rmtree(d)
        _RECORD = rec
    return _RECORD


def conflict_paths(rec, subset):
    touch, mutate = {}, {}
    for i in subset:
        for op, path in rec[i][0]:
            touch.setdefault(path, set()).add(i)
            if op in procsched.MUTATING:
                mutate.setdefault(path, set()).add(i)
    return {p for p, ws in touch.items() if len(ws) >= 2 and p in mutate}


def serial_tree(rec, subset):
    """Tree the subset produces when run serially = union of the workers' own trees
    (cross-checked against a real serial run in run())."""
    out = {}
    for i in subset:
        for k, v in rec[i][2].items():
            if k in out and out[k] != v:
                out[k] = "CONFLICT"
            else:
                out[k] = v
    # directories that are empty in one worker's tree but not in the union
    for k in [k for k in out if k.endswith("/")]:
        if any(o != k and o.startswith(k) for o in out):
            del out[k]
    return out


def explore_subset(subset, bound, scratch, t, label, max_exec=4000):
    ws = get_workers()
    rec = recordings(scratch)
    conf = conflict_paths(rec, subset)
    expect = serial_tree(rec, subset)
    counter = [0]

    def make():
        d = os.path.join(scratch, "x-%s-%d" % (label, counter[0]))
        counter[0] += 1
        os.makedirs(d)
        ex = procsched.Execution([ws[i] for i in subset], d, ROOT, conf)
        return ex, (lambda: shutil.rmtree(d, ignore_errors=True))

    def check(res, ex, sched):
        t.count("schedules")
        case = {"workers": list(subset), "names": [ws[i][0] for i in subset], "schedule": list(sched), "bound": bound}
        if res["deadlock"]:
            t.violation("%s: no progress within the horizon under schedule %r" % (label, sched), case)
            return
        bad = {i: st for i, st in res["exits"].items() if st != 0}
        if bad:
            err = ""
            for i in bad:
                p = os.path.join(ex.workdir, "worker-%d.err" % i)
                if os.path.exists(p):
                    err = open(p).read().strip().splitlines()[-1]
            t.violation("%s: worker(s) %r failed under schedule %r: %s" % (label, [ws[subset[i]][0] for i in bad], sched, err), case)
            return
        got = tree_digest(os.path.join(ex.workdir, ROOT))
        if got != expect:
            diff = sorted(set(got.items()) ^ set(expect.items()))[:4]
            t.violation("%s: output tree differs from the serial run under schedule %r: %r" % (label, sched, diff), case)
            return
        t.distinct("trees", sorted(got.items()))
        reordered = any(a[0] != b[0] and procsched.dependent((a[1], a[2]), (b[1], b[2])) for a, b in zip(res["ops"], res["ops"][1:]))
        if reordered:
            t.count("schedules_with_adjacent_dependent_ops")

    stats = procsched.explore(make, check, preemption_bound=bound, max_executions=max_exec)
    t.count("executions", stats["executions"])
    t.count("redundant_executions_cut_by_sleep_sets", stats["redundant"])
    t.n["max_points"] = max(t.n["max_points"], stats["max_points"])
    t.distinct("subsets", tuple(subset))
    if stats["capped"]:
        t.count("capped_subsets")
    t.sample("subset", {"workers": [ws[i][0] for i in subset], "conflict_paths": sorted(conf), "schedules": stats["executions"], "max_points": stats["max_points"], "bound": bound})
    return stats


# -- two configurations in one run (state shared between configurations in the serial process) ------
TWO_CSV = None


def two_config_csv(scratch_root):
    """A CSV with two configurations: 'cfg x' = the sample's 'minimal' column; 'cfg_x' = the same
    with another pixel aspect ratio, several video parameters left to the base format
    ('default' cells) and an explicit quantisation matrix."""
    global TWO_CSV
    if TWO_CSV is None:
        import csv as _csv

        rows = list(_csv.reader(open(CSV)))
        col = None
        for r in rows:
            if r and r[0].strip() == "name":
                col = [c.strip() for c in r].index(CODEC)
        out = []
        for r in rows:
            if not r or not r[0].strip() or r[0].strip().startswith("#"):
                continue
            k = r[0].strip()
            v = r[col] if col < len(r) else ""
            a, b = v, v
            if k == "name":
                a, b = "cfg x", "cfg_x"  # distinct names that differ only in a character a file system may dislike
            elif k == "pixel_aspect_ratio_numer":
                b = "4"
            elif k == "pixel_aspect_ratio_denom":
                b = "3"
            elif k in ("source_sampling", "top_field_first", "frame_rate_numer", "frame_rate_denom", "color_primaries_index", "color_matrix_index", "transfer_function_index", "left_offset", "top_offset"):
                b = "default"
            elif k == "quantization_matrix":
                b = "3 1 2 0"
            out.append([k, a, b])
        path = os.path.join(scratch_root, "two_configs.csv")
        with open(path, "w", newline="") as f:
            _csv.writer(f).writerows(out)
        TWO_CSV = path
    return TWO_CSV


_TWO_WORKERS = None


def two_config_workers(csv_path):
    global _TWO_WORKERS
    if _TWO_WORKERS is None:
        import logging

        logging.disable(logging.WARNING)
        c24_runner.swap()
        from vc2_conformance.scripts.vc2_test_case_generator import cli, worker

        buf = io.StringIO()
        with contextlib.redirect_stdout(buf):
            rc = cli.main([csv_path, "--parallel", "--output", ROOT])
        if rc != 0:
            raise RuntimeError("generator --parallel returned %r" % rc)
        _TWO_WORKERS = [worker.decode(line.split(" ", 1)[1].strip()) for line in buf.getvalue().splitlines() if line.strip()]
    return _TWO_WORKERS


def run_two_config_worker(i, csv_path, scratch, t):
    fn = two_config_workers(csv_path)[i]
    d = os.path.join(scratch, "tw-%d" % i)
    os.makedirs(d)
    ops, status = procsched.record_ops(fn, d, ROOT)
    if status != 0:
        t.violation("two-configuration CSV: worker %d fails when run alone" % i, {"two_config_worker": i})
    t.extra = ("worker", i, tree_digest(os.path.join(d, ROOT)))
    t.count("two_config_worker_runs")


def run_two_config_serial(csv_path, scratch, t, seed=None):
    d = os.path.join(scratch, "ts")
    os.makedirs(d)
    env = dict(os.environ)
    env["PYTHONDONTWRITEBYTECODE"] = "1"
    if seed is not None:
        env["PYTHONHASHSEED"] = str(seed)
    r = subprocess.run([sys.executable, os.path.join(mc.VERIF_DIR, "props", "c24_runner.py"), csv_path, "--output", ROOT], cwd=d, env=env, capture_output=True, text=True, timeout=1800)
    if r.returncode != 0:
        t.violation("two-configuration CSV: serial generator exited %d: %s" % (r.returncode, r.stderr[-300:]), {"two_config_serial": True})
        return
    t.extra = ("serial", seed, tree_digest(os.path.join(d, ROOT)))
    t.count("two_config_serial_runs")


def _shard(arg):
    kind, payload = arg
    t = Tally()
    scratch = tempfile.mkdtemp(prefix="verif-c24-")
    try:
        if kind == "two-worker":
            run_two_config_worker(payload[0], payload[1], scratch, t)
        elif kind == "two-serial":
            run_two_config_serial(payload, scratch, t)
        elif kind == "two-serial-seed":
            run_two_config_serial(payload[0], scratch, t, payload[1])
        if kind == "subset":
            subset, bound, label, cap = payload
            explore_subset(tuple(subset), bound, scratch, t, label, cap)
        elif kind == "structured":
            order_name, order = payload
            run_structured(order_name, order, scratch, t)
        elif kind == "hashseed":
            run_hashseed(payload, scratch, t)
    finally:
        shutil.rmtree(scratch, ignore_errors=True)
    return t


def run_structured(order_name, policy_spec, scratch, t):
    """All workers together under one structured schedule."""
    ws = get_workers()
    rec = recordings(scratch)
    subset = tuple(range(len(ws)))
    conf = conflict_paths(rec, subset)
    expect = serial_tree(rec, subset)
    d = os.path.join(scratch, "all")
    os.makedirs(d)
    kind, arg = policy_spec

    def policy(enabled, last, pending):
        if kind == "serial":
            return last if last in enabled else enabled[0]
        if kind == "reversed":
            return last if last in enabled else enabled[-1]
        if kind == "first":
            if arg in enabled:
                return arg
            return last if last in enabled else enabled[0]
        if kind == "roundrobin":
            later = [e for e in enabled if last is None or e > last]
            return later[0] if later else enabled[0]
        raise ValueError(kind)

    ex = procsched.Execution(list(ws), d, ROOT, conf, timeout=1800.0)
    res = ex.run([], policy)
    t.count("structured_schedules")
    t.count("schedules")
    case = {"structured": order_name}
    bad = {i: st for i, st in res["exits"].items() if st != 0}
    if res["deadlock"] or bad:
        t.violation("all workers, %s: workers failed/deadlocked: %r" % (order_name, [ws[i][0] for i in bad]), case)
        return
    got = tree_digest(os.path.join(d, ROOT))
    if got != expect:
        diff = sorted(set(got.items()) ^ set(expect.items()))[:4]
        t.violation("all workers, %s: output tree differs from the serial run: %r" % (order_name, diff), case)
    else:
        t.distinct("trees", sorted(got.items()))
        t.sample("structured", {"order": order_name, "scheduling_points": len(res["points"]), "files": len(got)})


def run_hashseed(seed, scratch, t):
    """Whole generator (serial main()) in a fresh interpreter with PYTHONHASHSEED=seed."""
    d = os.path.join(scratch, "hs")
    os.makedirs(d)
    env = dict(os.environ)
    env["PYTHONHASHSEED"] = str(seed)
    env["PYTHONDONTWRITEBYTECODE"] = "1"
    r = subprocess.run([sys.executable, os.path.join(mc.VERIF_DIR, "props", "c24_runner.py"), CSV, "--codecs", CODEC, "--output", ROOT], cwd=d, env=env, capture_output=True, text=True, timeout=900)
    t.count("hashseed_runs")
    if r.returncode != 0:
        t.violation("generator with PYTHONHASHSEED=%s exited %d: %s" % (seed, r.returncode, r.stderr[-300:]), {"hashseed": seed})
        return
    t.extra = (seed, tree_digest(os.path.join(d, ROOT)))


def choose_pairs(rec):
    """Worker pairs {decoder,decoder}, {decoder,encoder}, {encoder,encoder}: cheapest workers with >= 1 conflict op."""
    ws = get_workers()
    dec = [i for i, (n, _) in enumerate(ws) if n.startswith("decoder")]
    enc = [i for i, (n, _) in enumerate(ws) if n.startswith("encoder")]
    cost = lambda i: len(rec[i][0])  # noqa
    dec_sorted = sorted(dec, key=lambda i: (cost(i), i))
    enc_sorted = sorted(enc, key=lambda i: (cost(i), i))
    return dec_sorted, enc_sorted


def run(ctx):
    total = Tally()
    scratch = tempfile.mkdtemp(prefix="verif-c24-main-")
    try:
        ws = get_workers()
        rec = recordings(scratch)
        for i, (ops, status, tree) in enumerate(rec):
            if status != 0:
                total.violation("worker %s fails when run alone (status %d)" % (ws[i][0], status), {"alone": i})
        # cross-check: the union of the workers' own trees == tree of the real serial generator (fresh process)
        t0 = _shard(("hashseed", 0))
        total.merge(t0)
        serial = t0.extra[1] if t0.extra else None
        union = serial_tree(rec, range(len(ws)))
        if serial is not None and serial != union:
            diff = sorted(set(serial.items()) ^ set(union.items()))[:4]
            total.violation("serial generator run differs from the union of the workers run one by one: %r" % (diff,), {"serial_vs_union": True})
        dec, enc = choose_pairs(rec)
        shards = []
        quick = ctx.quick
        cap = 400 if quick else 1500
        pairs = [(dec[0], dec[1]), (dec[0], enc[0]), (enc[0], enc[1])]
        if not quick:
            pairs += [(dec[1], dec[2]), (dec[-1], enc[-1]), (dec[2], enc[1]), (enc[-1], enc[-2])]
        for a, b in pairs:
            shards.append(("subset", ((a, b), None, "pair-%d-%d" % (a, b), cap)))
        triples = [(dec[0], dec[1], enc[0])] + ([(dec[0], enc[0], enc[1]), (dec[1], dec[2], dec[3])] if not quick else [])
        for tr in triples:
            shards.append(("subset", (tr, 2, "triple-%s" % "-".join(map(str, tr)), cap)))
        # serial order permutations of 3 workers (all 6) == schedules with 0 preemptions; covered by bound-0 exploration of the triple
        structured = [("serial", ("serial", None)), ("reversed", ("reversed", None)), ("round-robin", ("roundrobin", None))]
        firsts = range(len(ws)) if not quick else [dec[0], enc[0], dec[-1], enc[-1]]
        for i in firsts:
            structured.append(("first-%s" % ws[i][0], ("first", i)))
        for name, spec in structured:
            shards.append(("structured", (name, spec)))
        csv2 = two_config_csv(scratch)
        n_two = len(two_config_workers(csv2))
        seeds = (1, 2) if quick else (1, 2, 3, 4, 12345)
        two_seeds = (1,) if quick else seeds
        two_shards = [("two-serial", csv2)] + [("two-serial-seed", (csv2, sd)) for sd in two_seeds] + [("two-worker", (i, csv2)) for i in range(n_two)]
        results = []
        import multiprocessing

        mctx = multiprocessing.get_context("fork")
        with mctx.Pool(min(pool.NPROC, len(shards) + len(seeds))) as p:
            results = p.map(_shard_safe, two_shards + shards + [("hashseed", s) for s in seeds], chunksize=1)
        trees = {0: serial}
        two_serial, two_union, two_seeded = None, {}, {}
        for r in results:
            if r.extra and r.extra[0] == "serial" and r.extra[1] is not None:
                two_seeded[r.extra[1]] = r.extra[2]
            elif r.extra and r.extra[0] == "serial":
                two_serial = r.extra[2]
            elif r.extra and r.extra[0] == "worker":
                for k, v in r.extra[2].items():
                    two_union[k] = v if two_union.get(k, v) == v else "CONFLICT"
            elif r.extra:
                trees[r.extra[0]] = r.extra[1]
            r.extra = None
            total.merge(r)
        for k in [k for k in two_union if k.endswith("/")]:
            if any(o != k and o.startswith(k) for o in two_union):
                del two_union[k]
        if two_serial is not None and two_serial != two_union:
            diff = sorted(set(two_serial.items()) ^ set(two_union.items()))[:4]
            total.violation("two-configuration CSV: the serial run differs from the workers run one by one in fresh processes: %r" % (diff,), {"two_config": True})
        for sd, tr in sorted(two_seeded.items()):
            if two_serial is not None and tr != two_serial:
                diff = sorted(set(tr.items()) ^ set(two_serial.items()))[:4]
                total.violation("two-configuration CSV: PYTHONHASHSEED=%s gives a different output tree than PYTHONHASHSEED=0: %r" % (sd, diff), {"two_config_hashseed": sd})
        for s, tr in sorted(trees.items()):
            if tr is not None and serial is not None and tr != serial:
                diff = sorted(set(tr.items()) ^ set(serial.items()))[:4]
                total.violation("PYTHONHASHSEED=%s gives a different output tree than PYTHONHASHSEED=0: %r" % (s, diff), {"hashseed": s})
        if total.n["schedules_with_adjacent_dependent_ops"] < 2 and not total.violation_count:
            total.error("vacuous: no explored schedule reorders a dependent pair of operations")
        cov = {
            "states": total.n["schedules"],
            "transitions": total.n["schedules"] * max(1, total.n["max_points"]),
            "traces_validated_against_impl": total.n["schedules"] + total.n["hashseed_runs"],
            "exhaustive": total.n["capped_subsets"] == 0,
            "bounds": {
                "workers": [n for n, _ in ws],
                "pairs_exhaustive": [[ws[a][0], ws[b][0]] for a, b in pairs],
                "triples_preemption_bound_2": [[ws[i][0] for i in tr] for tr in triples],
                "structured_all_worker_schedules": [n for n, _ in structured],
                "hash_seeds": [0] + list(seeds),
                "two_configuration_csv": "serial run vs %d workers each run alone ('cfg x' = sample 'minimal'; 'cfg_x' = other pixel aspect ratio, 9 'default' video-parameter cells, explicit quantisation matrix); the serial run repeated under hash seeds %r" % (n_two, list(two_seeds)),
                "execution_cap_per_subset": cap,
                "capped_subsets": total.n["capped_subsets"],
                "distinct_output_trees": total.ndistinct("trees"),
            },
            "rule": "states = complete schedules executed with real worker processes (each compared with the serial output tree); transitions = scheduling points granted; hash-seed runs are whole-generator runs in fresh interpreters",
        }
        return total, cov
    finally:
        shutil.rmtree(scratch, ignore_errors=True)


def _shard_safe(arg):
    try:
        return _shard(arg)
    except BaseException:  # noqa
        import traceback

        t = Tally()
        t.error("C24 shard %r crashed:\n%s" % (arg[0], traceback.format_exc()))
        return t


def replay_case(case):
    t = Tally()
    scratch = tempfile.mkdtemp(prefix="verif-c24-replay-")
    try:
        if "schedule" in case:
            ws = get_workers()
            rec = recordings(scratch)
            subset = tuple(case["workers"])
            conf = conflict_paths(rec, subset)
            expect = serial_tree(rec, subset)
            d = os.path.join(scratch, "x")
            os.makedirs(d)
            ex = procsched.Execution([ws[i] for i in subset], d, ROOT, conf)
            try:
                res = ex.run(list(case["schedule"]))
            except RuntimeError as e:
                return ["schedule no longer applicable: %s" % e]
            if res["deadlock"] or any(st != 0 for st in res["exits"].values()):
                return ["workers failed / deadlocked under the schedule"]
            got = tree_digest(os.path.join(d, ROOT))
            return [] if got == expect else ["output tree differs from the serial run"]
        if "structured" in case or "hashseed" in case or "alone" in case or "serial_vs_union" in case or "two_config" in case or "two_config_hashseed" in case or "two_config_worker" in case or "two_config_serial" in case:
            return ["(re-run ./check C24 to reproduce this whole-generator case)"]
        return []
    finally:
        shutil.rmtree(scratch, ignore_errors=True)
