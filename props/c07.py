"""C07 -- automatic field filling preserves explicit values and computes derived ones.

Exhaustive small stream descriptions x explicit/omitted/AUTO choices through the real
autofill_and_serialise_stream; oracle = reference autofill rules evaluated on
the *bytes* produced (DESIGN.md section 6, C07).
"""
import io
import itertools

import mc  # noqa
from mc import pool, vc2run
from mc.tally import Tally
from build import vc2build as B
from models import regexref as R
from models import streamref as S

PROPERTY = "C07"
LEVEL = "exploration"
ASSUMPTIONS = [
    "descriptions use a tiny explicit 4x2 frame size (explicit fields are allowed by the property); payload bytes never contain the parse_info prefix so data-unit positions are found by an independent scan of the output",
    "descriptions the serialiser refuses are out of scope (counted)",
    "explicit odd parse offsets are not applied to padding/auxiliary units (their next_parse_offset defines the payload length)",
]
M32 = 1 << 32
ODD_NPO, ODD_PPO = 77, 55

UNIT_KINDS = ("SH", "PIC", "FRAG0", "FRAG1", "PAD0", "PAD1", "PAD5", "AUX0", "AUX3", "EOS")
FEATURES = ("none", "ld", "fr12", "sr5", "cs5", "prim4", "matrix4", "tf4", "prim1+tf4", "matrix2+tf5", "prim2+matrix4", "prim1+matrix1+tf1", "fr3+sr2")
TRANSFORMS = ("sym", "asym_index", "asym_depth", "etp_neutral", "index_flag_only_wi1", "index_flag_only", "depth_flag_only", "wi1")

# a unit = (kind, npo, ppo, pn, mv, feature, transform); choice values:
#   npo/ppo: "omit" | "auto" | "odd";  pn: "omit" | "auto" | 7 | M32-1
#   mv: "omit" | "auto" | 1 | 2 | 3


def default_unit(kind):
    return (kind, "omit", "omit", "omit", "omit", "none", "sym")


def build_description(seqs):
    from vc2_conformance.bitstream import vc2_fixeddicts as fd
    from vc2_conformance.bitstream.vc2_autofill import AUTO
    from vc2_data_tables import ParseCodes as PC, Profiles

    out = []
    for units in seqs:
        profile_ld = any(u[0] == "SH" and u[5] == "ld" for u in units)
        dus = []
        for kind, npo, ppo, pn, mv, feat, tr in units:
            pi = fd.ParseInfo()
            if npo == "auto":
                pi["next_parse_offset"] = AUTO
            elif npo == "odd":
                pi["next_parse_offset"] = ODD_NPO
            if ppo == "auto":
                pi["previous_parse_offset"] = AUTO
            elif ppo == "odd":
                pi["previous_parse_offset"] = ODD_PPO
            du = fd.DataUnit(parse_info=pi)
            if kind == "SH":
                pi["parse_code"] = PC.sequence_header
                pp = fd.ParseParameters()
                if mv == "auto":
                    pp["major_version"] = AUTO
                elif mv != "omit":
                    pp["major_version"] = mv
                if feat == "ld":
                    pp["profile"] = Profiles.low_delay
                vp = fd.SourceParameters(
                    frame_size=fd.FrameSize(custom_dimensions_flag=True, frame_width=4, frame_height=2),
                    clean_area=fd.CleanArea(custom_clean_area_flag=True, clean_width=4, clean_height=2),
                    signal_range=fd.SignalRange(custom_signal_range_flag=True, index=5 if feat == "sr5" else 1),
                )
                if feat == "fr12":
                    vp["frame_rate"] = fd.FrameRate(custom_frame_rate_flag=True, index=12)
                if feat == "cs5":
                    vp["color_spec"] = fd.ColorSpec(custom_color_spec_flag=True, index=5)
                if feat == "prim4":
                    vp["color_spec"] = fd.ColorSpec(custom_color_spec_flag=True, index=0, color_primaries=fd.ColorPrimaries(custom_color_primaries_flag=True, index=4))
                if feat == "matrix4":
                    vp["color_spec"] = fd.ColorSpec(custom_color_spec_flag=True, index=0, color_matrix=fd.ColorMatrix(custom_color_matrix_flag=True, index=4))
                if feat == "tf4":
                    vp["color_spec"] = fd.ColorSpec(custom_color_spec_flag=True, index=0, transfer_function=fd.TransferFunction(custom_transfer_function_flag=True, index=4))
                if "+" in feat and not feat.startswith("fr3"):
                    cs = fd.ColorSpec(custom_color_spec_flag=True, index=0)
                    for part in feat.split("+"):
                        name, idx = part.rstrip("0123456789"), int(part[len(part.rstrip("0123456789")):])
                        if name == "prim":
                            cs["color_primaries"] = fd.ColorPrimaries(custom_color_primaries_flag=True, index=idx)
                        elif name == "matrix":
                            cs["color_matrix"] = fd.ColorMatrix(custom_color_matrix_flag=True, index=idx)
                        elif name == "tf":
                            cs["transfer_function"] = fd.TransferFunction(custom_transfer_function_flag=True, index=idx)
                    vp["color_spec"] = cs
                if feat == "fr3+sr2":
                    vp["frame_rate"] = fd.FrameRate(custom_frame_rate_flag=True, index=3)
                    vp["signal_range"] = fd.SignalRange(custom_signal_range_flag=True, index=2)
                du["sequence_header"] = fd.SequenceHeader(parse_parameters=pp, video_parameters=vp)
            elif kind in ("PIC", "FRAG0", "FRAG1"):
                tp = fd.TransformParameters()
                if tr == "asym_index":
                    tp["extended_transform_parameters"] = fd.ExtendedTransformParameters(asym_transform_index_flag=True, wavelet_index_ho=1)
                    tp["quant_matrix"] = fd.QuantMatrix(custom_quant_matrix=True, quant_matrix=[0])
                elif tr == "asym_depth":
                    tp["extended_transform_parameters"] = fd.ExtendedTransformParameters(asym_transform_flag=True, dwt_depth_ho=1)
                    tp["quant_matrix"] = fd.QuantMatrix(custom_quant_matrix=True, quant_matrix=[0, 0])
                elif tr == "etp_neutral":
                    tp["extended_transform_parameters"] = fd.ExtendedTransformParameters(asym_transform_index_flag=False, asym_transform_flag=False)
                elif tr == "index_flag_only_wi1":
                    # flag set, wavelet_index_ho omitted: documented default haar_with_shift (4) != wavelet_index 1 -> asymmetric
                    tp["wavelet_index"] = 1
                    tp["extended_transform_parameters"] = fd.ExtendedTransformParameters(asym_transform_index_flag=True)
                    tp["quant_matrix"] = fd.QuantMatrix(custom_quant_matrix=True, quant_matrix=[0])
                elif tr == "index_flag_only":
                    # flag set, both indices at their documented default (4): symmetric after all
                    tp["extended_transform_parameters"] = fd.ExtendedTransformParameters(asym_transform_index_flag=True)
                elif tr == "depth_flag_only":
                    # flag set, dwt_depth_ho omitted: documented default 0 -> symmetric
                    tp["extended_transform_parameters"] = fd.ExtendedTransformParameters(asym_transform_flag=True)
                elif tr == "wi1":
                    tp["wavelet_index"] = 1
                if kind == "PIC":
                    pi["parse_code"] = PC.low_delay_picture if profile_ld else PC.high_quality_picture
                    ph = fd.PictureHeader()
                    if pn == "auto":
                        ph["picture_number"] = AUTO
                    elif pn != "omit":
                        ph["picture_number"] = pn
                    du["picture_parse"] = fd.PictureParse(picture_header=ph, wavelet_transform=fd.WaveletTransform(transform_parameters=tp))
                else:
                    pi["parse_code"] = PC.low_delay_picture_fragment if profile_ld else PC.high_quality_picture_fragment
                    fh = fd.FragmentHeader(fragment_slice_count=0 if kind == "FRAG0" else 1)
                    if pn == "auto":
                        fh["picture_number"] = AUTO
                    elif pn != "omit":
                        fh["picture_number"] = pn
                    fp = fd.FragmentParse(fragment_header=fh)
                    if kind == "FRAG0":
                        fp["transform_parameters"] = tp
                    du["fragment_parse"] = fp
            elif kind.startswith("PAD"):
                pi["parse_code"] = PC.padding_data
                n = int(kind[3:])
                if n:
                    du["padding"] = fd.Padding(bytes=b"\x01" * n)
            elif kind.startswith("AUX"):
                pi["parse_code"] = PC.auxiliary_data
                n = int(kind[3:])
                if n:
                    du["auxiliary_data"] = fd.AuxiliaryData(bytes=b"\x02" * n)
            elif kind == "EOS":
                pi["parse_code"] = PC.end_of_sequence
            dus.append(du)
        out.append(fd.Sequence(data_units=dus))
    return fd.Stream(sequences=out)


# header features that need major_version 3 (preset indices introduced by the 2017 edition)
V3_FEATURES = ("fr12", "sr5", "cs5", "prim4", "matrix4", "tf4", "prim1+tf4", "matrix2+tf5", "prim2+matrix4")
ASYM = ("asym_index", "asym_depth", "index_flag_only_wi1")  # transform variants that are really asymmetric
HAS_ETP = ("asym_index", "asym_depth", "etp_neutral", "index_flag_only_wi1", "index_flag_only", "depth_flag_only")

CODES = {"SH": 0x00, "EOS": 0x10, "PAD": 0x30, "AUX": 0x20}


def required_version(units):
    """Minimum major_version the features of one sequence need (11.2.2)."""
    v = 1
    for kind, npo, ppo, pn, mv, feat, tr in units:
        if kind == "SH":
            if feat != "ld":
                v = max(v, 2)  # high quality profile (the description default)
            if feat in V3_FEATURES:
                v = max(v, 3)
        if kind in ("FRAG0", "FRAG1"):
            v = max(v, 3)
        if kind in ("PIC", "FRAG0") and tr in ASYM:
            v = max(v, 3)
    return v


# explicit extended transform parameters of each transform variant as they must be coded:
# (asym_transform_index_flag, wavelet_index_ho, asym_transform_flag, dwt_depth_ho); omitted values
# take the documented defaults (wavelet_index_ho 4 = haar_with_shift, dwt_depth_ho 0)
ETP_EXPLICIT = {
    "asym_index": (True, 1, False, None),
    "asym_depth": (False, None, True, 1),
    "etp_neutral": (False, None, False, None),
    "index_flag_only_wi1": (True, 4, False, None),
    "index_flag_only": (True, 4, False, None),
    "depth_flag_only": (False, None, True, 0),
}


def read_uint(bits, pos):
    v = 1
    while bits[pos] == "0":
        v = (v << 1) | (1 if bits[pos + 1] == "1" else 0)
        pos += 2
    return v - 1, pos + 1


def check(seqs, data):
    """Reference autofill rules evaluated on the produced bytes."""
    problems = []
    flat = [u for units in seqs for u in units]
    positions = []
    p = data.find(B.PARSE_INFO_PREFIX)
    while p >= 0:
        positions.append(p)
        p = data.find(B.PARSE_INFO_PREFIX, p + 4)
    if len(positions) != len(flat):
        return ["%d parse_info prefixes in the output for %d data units" % (len(positions), len(flat))], None
    k = 0
    abstract = []
    for units in seqs:
        last_pn = -1
        need = required_version(units)
        coded_version = None
        auto_version = False
        explicit_version = None
        for j, (kind, npo, ppo, pn, mv, feat, tr) in enumerate(units):
            off = positions[k]
            end = positions[k + 1] if k + 1 < len(positions) else len(data)
            code = data[off + 4]
            got_npo = int.from_bytes(data[off + 5 : off + 9], "big")
            got_ppo = int.from_bytes(data[off + 9 : off + 13], "big")
            true_len = end - off
            # next parse offset
            if npo == "odd":
                want = ODD_NPO
            else:
                want = 0 if j == len(units) - 1 else true_len
                if kind[:3] in ("PAD", "AUX"):
                    want = true_len  # defined by the payload length (13 + len(bytes))
            if got_npo != want:
                problems.append("unit %d (%s): next_parse_offset %d, expected %d" % (k, kind, got_npo, want))
            if ppo == "odd":
                want = ODD_PPO
            else:
                want = 0 if j == 0 else off - positions[k - 1]
            if got_ppo != want:
                problems.append("unit %d (%s): previous_parse_offset %d, expected %d" % (k, kind, got_ppo, want))
            a = {"kind": {"FRAG0": "FRAG", "FRAG1": "FRAG"}.get(kind, kind[:3] if kind[:3] in ("PAD", "AUX") else kind), "length": true_len, "npo": got_npo, "ppo": got_ppo}
            if kind in ("PIC", "FRAG0", "FRAG1"):
                got_pn = int.from_bytes(data[off + 13 : off + 17], "big")
                if pn in ("omit", "auto"):
                    want = (last_pn + 1) % M32 if kind != "FRAG1" else last_pn % M32
                else:
                    want = pn
                if got_pn != want:
                    problems.append("unit %d (%s): picture number %d, expected %d" % (k, kind, got_pn, want))
                last_pn = got_pn
                ld = code in (0xC8, 0xCC)
                a.update(ld=ld, pn=got_pn, asym=tr in ASYM)
                if kind != "PIC":
                    a.update(slice_count=0 if kind == "FRAG0" else 1, x_offset=0, y_offset=0)
            if kind == "SH":
                bits = B.bytes_to_bits(data[off + 13 : off + 13 + 12])
                got_mv, pos = read_uint(bits, 0)
                got_minor, pos = read_uint(bits, pos)
                got_profile, pos = read_uint(bits, pos)
                got_level, pos = read_uint(bits, pos)
                if mv in ("omit", "auto"):
                    if got_mv != need:
                        problems.append("unit %d: automatic major_version %d, features require %d" % (k, got_mv, need))
                elif got_mv != mv:
                    problems.append("unit %d: explicit major_version %r written as %d" % (k, mv, got_mv))
                if got_minor != 0 or got_level != 0 or got_profile != (0 if feat == "ld" else 3):
                    problems.append("unit %d: minor_version/profile/level %r do not equal explicit/default values" % (k, (got_minor, got_profile, got_level)))
                if coded_version is None:
                    coded_version = got_mv
                explicit_version = mv if mv not in ("omit", "auto") else None
                minv = 3 if feat in V3_FEATURES else 1
                a["header"] = data[off + 13 : end]
                a["hdr"] = {"major_version": got_mv, "profile": got_profile, "level": got_level, "fields": False, "min_version": minv}
            if kind in ("PIC", "FRAG0") and tr in ETP_EXPLICIT and explicit_version == 3 and coded_version == 3:
                # explicit extended transform parameters under an explicit version 3: the flags
                # (and values) given must be the ones coded, symmetric or not
                start = off + 17 if kind == "PIC" else off + 21
                bits = B.bytes_to_bits(data[start : start + 8])
                _wi, pos = read_uint(bits, 0)
                _dd, pos = read_uint(bits, pos)
                f1 = bits[pos] == "1"
                pos += 1
                ho = None
                if f1:
                    ho, pos = read_uint(bits, pos)
                f2 = bits[pos] == "1"
                pos += 1
                dho = None
                if f2:
                    dho, pos = read_uint(bits, pos)
                if (f1, ho, f2, dho) != ETP_EXPLICIT[tr]:
                    problems.append("unit %d (%s): explicit extended transform parameters %s coded as (index flag, wavelet_index_ho, depth flag, dwt_depth_ho) = %r, expected %r" % (k, kind, tr, (f1, ho, f2, dho), ETP_EXPLICIT[tr]))
            abstract.append(a)
            k += 1
    return problems, abstract


def expected_serialisable(seqs):
    """Descriptions that must serialise: every sequence is 'SH ... EOS' with exactly one EOS, no
    picture before the header, and no extended transform parameters under an explicit version < 3."""
    for units in seqs:
        kinds = [u[0] for u in units]
        if not kinds or kinds[0] != "SH" or kinds[-1] != "EOS" or kinds.count("EOS") != 1:
            return False
        mv = None
        have_tp = False
        for kind, npo, ppo, pn, m, feat, tr in units:
            if kind == "SH":
                mv = m
            if kind == "FRAG1" and not have_tp:
                return False  # slice geometry unknown: no transform parameters seen yet
            if kind in ("PIC", "FRAG0"):
                have_tp = True
            if kind in ("PIC", "FRAG0") and tr in HAS_ETP and mv in (1, 2):
                return False
            if kind in ("PIC", "FRAG0") and tr in ASYM and mv in ("omit", "auto") and False:
                return False
        # explicit version 3 without ETP present is fine: defaults fill it in
    return True


def evaluate(seqs):
    """Returns (label, problems)."""
    from vc2_conformance import bitstream as bs

    try:
        stream = build_description(seqs)
    except Exception as e:  # noqa
        return "harness", ["could not build description: %r" % (e,)]
    f = io.BytesIO()
    try:
        bs.autofill_and_serialise_stream(f, stream)
    except Exception as e:  # noqa
        if expected_serialisable(seqs):
            return "unserialisable:" + type(e).__name__, ["a well-formed description could not be serialised: %s: %s" % (type(e).__name__, str(e)[:120])]
        return "unserialisable:" + type(e).__name__, []
    data = f.getvalue()
    problems, abstract = check(seqs, data)
    if problems or abstract is None:
        return "serialised", problems
    # cross-check with the validator: structurally valid per the reference acceptor <=> accepted
    ref = S.StreamRef(lambda lv: R.CorrectMatcher(R.parse(".*")), 1, 1)
    for a in abstract:
        ref.step(a)
    v = vc2run.validate(data, limits=False, keep_pictures=False)
    if v.kind not in ("accept", "reject"):
        return "serialised", ["validator %s on autofilled stream" % v.label]
    if ref.accepts_complete() != (v.kind == "accept"):
        # transform-parameter validity the acceptor does not model (ETP with version < 3 etc.) is excluded:
        return "serialised", ["validator %s but the stream-structure reference %s (%s)" % (v.label, "accepts" if ref.accepts_complete() else "rejects", ref.dead or "incomplete")]
    return "valid" if v.kind == "accept" else "serialised", []


def structures(tier):
    quick = tier != "thorough"
    out = []
    maxlen = 3 if quick else 4
    kinds = UNIT_KINDS if quick else UNIT_KINDS
    for n in range(1, maxlen + 1):
        if n == 4:
            ks = ("SH", "PIC", "FRAG0", "FRAG1", "PAD1", "AUX3", "EOS")
        else:
            ks = kinds
        for ul in itertools.product(ks, repeat=n):
            out.append((tuple(default_unit(k) for k in ul),))
    small = ("SH", "PIC", "FRAG0", "FRAG1", "PAD1", "EOS")
    one = [ul for n in (1, 2) for ul in itertools.product(small, repeat=n)]
    for a in one:
        for b in one:
            out.append((tuple(default_unit(k) for k in a), tuple(default_unit(k) for k in b)))
    return out


BASES = [
    (("SH", "PIC", "EOS"),),
    (("SH", "PIC", "PIC", "EOS"),),
    (("SH", "FRAG0", "FRAG1", "EOS"),),
    (("SH", "FRAG0", "FRAG1", "PIC", "EOS"),),
    (("SH", "PAD1", "AUX3", "EOS"),),
    (("SH", "EOS"),),
    (("SH", "PIC", "EOS"), ("SH", "PIC", "EOS")),
    (("SH", "FRAG0", "FRAG1", "EOS"), ("SH", "PIC", "PIC", "EOS")),
    (("SH", "PIC", "SH", "PIC", "EOS"),),
]


def unit_choices(kind):
    """[(dimension index, value)] non-default choices for one unit."""
    ch = []
    if kind[:3] not in ("PAD", "AUX"):
        ch += [(1, "auto"), (1, "odd")]
    else:
        ch += [(1, "auto")]
    ch += [(2, "auto"), (2, "odd")]
    if kind in ("PIC", "FRAG0", "FRAG1"):
        ch += [(3, "auto"), (3, 7), (3, M32 - 1)]
    if kind == "SH":
        ch += [(4, "auto"), (4, 1), (4, 2), (4, 3)]
        ch += [(5, f) for f in FEATURES[1:]]
    if kind in ("PIC", "FRAG0"):
        ch += [(6, t) for t in TRANSFORMS[1:]]
    return ch


def deviations(tier):
    quick = tier != "thorough"
    out = []
    for base in BASES:
        seqs0 = tuple(tuple(default_unit(k) for k in ul) for ul in base)
        sites = []
        for si, ul in enumerate(base):
            for ui, k in enumerate(ul):
                for dim, val in unit_choices(k):
                    sites.append((si, ui, dim, val))

        def apply(seqs, site):
            si, ui, dim, val = site
            s = [list(x) for x in seqs]
            u = list(s[si][ui])
            u[dim] = val
            s[si][ui] = tuple(u)
            return tuple(tuple(x) for x in s)

        out.append(seqs0)
        for a in sites:
            out.append(apply(seqs0, a))
        for i, a in enumerate(sites):
            for b in sites[i + 1 :]:
                if (a[0], a[1], a[2]) == (b[0], b[1], b[2]):
                    continue
                out.append(apply(apply(seqs0, a), b))
        if not quick and len(sites) <= 40:
            for i, a in enumerate(sites):
                for j in range(i + 1, len(sites)):
                    for c in sites[j + 1 :]:
                        b = sites[j]
                        if len({(x[0], x[1], x[2]) for x in (a, b, c)}) < 3:
                            continue
                        out.append(apply(apply(apply(seqs0, a), b), c))
    return out


_CASES = {}


def all_cases(tier):
    if tier not in _CASES:
        _CASES[tier] = structures(tier) + deviations(tier)
    return _CASES[tier]


def _shard(arg):
    tier, w, n = arg
    t = Tally()
    for seqs in all_cases(tier)[w::n]:
        label, problems = evaluate(seqs)
        t.count("descriptions")
        t.outcome("outcome", label)
        if problems:
            t.violation(problems[0], {"seqs": seqs})
        elif label in ("valid", "serialised"):
            t.distinct("serialised", seqs)
            if label == "valid":
                t.sample("valid", seqs)
    return t


def run(ctx):
    n = 64
    total = pool.map_shards(_shard, [(ctx.tier, w, n) for w in range(n)])
    cases = all_cases(ctx.tier)
    if total.n["descriptions"] != len(cases):
        total.error("evaluated %d of %d" % (total.n["descriptions"], len(cases)))
    if total.hist["outcome"].get("valid", 0) < 50 and not total.violation_count:
        total.error("vacuous: %d valid streams" % total.hist["outcome"].get("valid", 0))
    cov = {
        "evaluations": total.n["descriptions"],
        "distinct_nontrivial": total.ndistinct("serialised"),
        "rule": "all data-unit lists up to the length bound (one and two sequences) with every field omitted, plus all single and pairwise (triple in thorough) explicit/AUTO/odd choices, version-raising features and transform variants on 9 base streams; each serialised with the real autofill and checked on the output bytes against the reference rules, and cross-checked with the validator; non-trivial = distinct descriptions that serialised and were checked",
        "exhaustive": True,
        "bounds": {"structures": len(structures(ctx.tier)), "deviation_cases": len(deviations(ctx.tier)), "max_units_per_sequence": 3 if ctx.quick else 4},
    }
    return total, cov


def replay_case(case):
    seqs = tuple(tuple(tuple(u) for u in units) for units in case["seqs"])
    return evaluate(seqs)[1]
