"""C04 -- lossless and unquantised encodings reconstruct pictures exactly.

Same spaces as C03 restricted to lossless HQ and lossy configurations coded
with qindex 0 everywhere, crossed with a pixel-value alphabet
(DESIGN.md section 6, C04).
"""
import itertools

import mc  # noqa
from mc import pool, vc2run
from mc.tally import Tally
from props import encfeat, encspace

PROPERTY = "C04"
LEVEL = "exploration"
ASSUMPTIONS = [
    "picture area <= 16x8; pixel values from {0, 1, mid-1, mid, max-1, max}: constant planes, an impulse at every position, checkerboards, fixed-LCG noise; all 6^4 luma pictures for the 2x2 format",
    "lossy configurations are in scope only when the encoder's own description shows qindex 0 in every slice (otherwise set aside and counted)",
]


def value_alphabet(depth):
    mx = (1 << depth) - 1
    mid = 1 << (depth - 1) if depth else 0
    vals = []
    for v in (0, 1, mid - 1, mid, mx - 1, mx):
        if 0 <= v <= mx and v not in vals:
            vals.append(v)
    return vals


def const_picture(cf, iy, ic):
    (w, h), (cw, ch), ld, cd = encfeat.picture_geometry(cf)
    vy = value_alphabet(ld)
    vc = value_alphabet(cd)
    y, c = vy[iy % len(vy)], vc[ic % len(vc)]
    return {"Y": [[y] * w for _ in range(h)], "C1": [[c] * cw for _ in range(ch)], "C2": [[vc[(ic + 1) % len(vc)]] * cw for _ in range(ch)]}


def impulse_picture(cf, i, hi=True):
    (w, h), (cw, ch), ld, cd = encfeat.picture_geometry(cf)
    mxy, mxc = (1 << ld) - 1, (1 << cd) - 1
    by, bc = (0, 0) if hi else (mxy, mxc)
    p = {"Y": [[by] * w for _ in range(h)], "C1": [[bc] * cw for _ in range(ch)], "C2": [[bc] * cw for _ in range(ch)]}
    p["Y"][(i // w) % h][i % w] = mxy - by
    if cw * ch:
        j = i % (cw * ch)
        p["C1"][j // cw][j % cw] = mxc - bc
        k = (i * 7 + 3) % (cw * ch)
        p["C2"][k // cw][k % cw] = mxc - bc
    return p


def contents(cf, full):
    (w, h), (cw, ch), ld, cd = encfeat.picture_geometry(cf)
    pics = []
    for i in (range(6) if full else (0, 2, 5)):
        pics.append(const_picture(cf, i, i))
    pics.append(const_picture(cf, 0, 5))
    if full:
        pics.append(const_picture(cf, 5, 0))
    step = 1 if full else max(1, (w * h) // 3)
    for i in range(0, w * h, step):
        pics.append(impulse_picture(cf, i, True))
        if full or i == 0:
            pics.append(impulse_picture(cf, i, False))
    for k in ((0, 1) if full else (0,)):
        pics.append({k2: v for k2, v in encfeat.make_picture(cf, "checker", None, k).items()})
        pics.append(encfeat.make_picture(cf, "noise", None, k))
    if len(pics) % 2 and int(cf["picture_coding_mode"]) == 1:
        pics.append(encfeat.make_picture(cf, "ramp", None, 0))
    return pics


def all_qindices(x, out):
    if isinstance(x, dict):
        if "qindex" in x:
            out.append(x["qindex"])
        for v in x.values():
            all_qindices(v, out)
    elif isinstance(x, (list, tuple)):
        for v in x:
            all_qindices(v, out)
    return out


def configs(tier):
    out = []
    for g, c in encspace.core(tier):
        if c["mode"] == "hqll":
            out.append(("core-lossless", c, True))
        else:
            out.append(("core-q0", dict(c, picture_bytes=4000), False))
    for g, c in encspace.groups(tier):
        if g == "G8" and c["mode"] == "hqll":
            c2 = {k: v for k, v in c.items() if k != "content"}
            if c2 not in [x[1] for x in out if x[0] == "G8-lossless"]:
                out.append(("G8-lossless", c2, False))
        if g in ("G1", "G2", "G3", "G4"):
            if c["mode"] == "hqll":
                out.append((g + "-lossless", c, False))
            elif g in ("G1", "G3"):
                out.append((g + "-q0", dict(c, picture_bytes=6000), False))
    return out


def run_config(cfg, full, pics=None):
    from vc2_conformance.encoder.exceptions import UnsatisfiableCodecFeaturesError

    kw, opts = encspace.split(cfg)
    cf = encfeat.make_cf(**kw)
    if pics is None:
        pics = contents(cf, full)
    try:
        seq, data = encfeat.encode(cf, pics)
    except UnsatisfiableCodecFeaturesError as e:
        return "refused:" + type(e).__name__, [], 0
    except Exception as e:  # noqa
        return "crash", ["encoder raised %s: %s" % (type(e).__name__, e)], 0
    if not cf["lossless"]:
        qs = all_qindices(seq, [])
        if any(q != 0 for q in qs):
            return "quantised", [], 0
    v = vc2run.validate(data, limits=False)
    if v.kind != "accept":
        return "rejected", ["validator %s: %s" % (v.label, str(v.exc)[:200])], 0
    if len(v.pictures) != len(pics):
        return "ok", ["decoded %d pictures for %d inputs" % (len(v.pictures), len(pics))], 0
    for i, ((dec, _, _), src) in enumerate(zip(v.pictures, pics)):
        for comp in ("Y", "C1", "C2"):
            if dec[comp] != src[comp]:
                bad = [(y, x, src[comp][y][x], dec[comp][y][x]) for y in range(len(src[comp])) for x in range(len(src[comp][y])) if y < len(dec[comp]) and x < len(dec[comp][y]) and dec[comp][y][x] != src[comp][y][x]][:3]
                return "ok", ["picture %d component %s differs after decoding (y,x,in,out): %r" % (i, comp, bad)], i
    return "ok", [], len(pics)


def tiny_exhaustive_cases(tier):
    """2x2 luma: all 6^4 luma pictures x 3 chroma constants, chunks of 81 pictures."""
    wl = [(i, i) for i in range(7)] if tier == "thorough" else [(4, 4), (1, 1), (0, 0)]
    out = []
    for wi, wiho in wl:
        for dd, ddho in ((1, 0), (0, 1)):
            for chroma in ((0, 3, 5) if tier == "thorough" else (0,)):
                for chunk in range(16):
                    out.append(dict(mode="hqll", wavelet_index=wi, wavelet_index_ho=wiho, dwt_depth=dd, dwt_depth_ho=ddho, frame_width=2, frame_height=2, slices_x=1, slices_y=1, chroma=chroma, chunk=chunk))
    return out


def tiny_pictures(cfg):
    vals = value_alphabet(8)
    allp = list(itertools.product(vals, repeat=4))
    n = len(allp)
    per = (n + 15) // 16
    sel = allp[cfg["chunk"] * per : (cfg["chunk"] + 1) * per]
    c = vals[cfg["chroma"]]
    c2 = vals[(cfg["chroma"] + 2) % len(vals)]
    # (rows must be distinct list objects: the encoder's deepcopy preserves aliasing and removes offsets in place)
    return [{"Y": [[a, b], [cc, d]], "C1": [[c, c], [c, c]], "C2": [[c2, c2], [c2, c2]]} for a, b, cc, d in sel]


def _shard(arg):
    tier, w, n = arg
    t = Tally()
    cfgs = configs(tier)
    for i in range(w, len(cfgs), n):
        group, cfg, full = cfgs[i]
        label, problems, npics = run_config(cfg, full)
        t.count("configs")
        t.count("pictures_compared", npics)
        t.outcome("outcome:" + group, label.split(":")[0])
        if label == "ok" and not problems:
            t.distinct("roundtripped", sorted(cfg.items(), key=str))
            t.sample(group, cfg)
        if problems:
            t.violation("%s %r: %s" % (group, cfg, problems[0]), {"config": cfg, "full": full})
    tiny = tiny_exhaustive_cases(tier)
    for i in range(w, len(tiny), n):
        cfg = dict(tiny[i])
        pics = tiny_pictures(cfg)
        c2 = {k: v for k, v in cfg.items() if k not in ("chroma", "chunk")}
        label, problems, npics = run_config(c2, False, pics)
        t.count("tiny_chunks")
        t.count("pictures_compared", npics)
        t.outcome("outcome:tiny", label.split(":")[0])
        if problems:
            t.violation("tiny %r: %s" % (cfg, problems[0]), {"tiny": cfg})
    return t


def run(ctx):
    n = 64
    total = pool.map_shards(_shard, [(ctx.tier, w, n) for w in range(n)])
    cfgs = configs(ctx.tier)
    tiny = tiny_exhaustive_cases(ctx.tier)
    if total.n["configs"] != len(cfgs) or total.n["tiny_chunks"] != len(tiny):
        total.error("evaluated %d/%d configs, %d/%d tiny chunks" % (total.n["configs"], len(cfgs), total.n["tiny_chunks"], len(tiny)))
    if total.ndistinct("roundtripped") * 100 < 50 * len(cfgs) and not total.violation_count:
        total.error("vacuous: only %d of %d configurations round-tripped" % (total.ndistinct("roundtripped"), len(cfgs)))
    cov = {
        "evaluations": total.n["pictures_compared"],
        "distinct_nontrivial": total.ndistinct("roundtripped"),
        "rule": "every configuration of each listed product x every picture of the content alphabet is encoded, serialised, validated and decoded; evaluations = pictures compared sample by sample; non-trivial = distinct configurations whose every picture round-tripped",
        "exhaustive": True,
        "bounds": {"configs": len(cfgs), "tiny_2x2_chunks": len(tiny), "tiny_2x2": "all 6^4 luma pictures x 3 chroma constants per (wavelet, depth)", "set_aside_quantised": sum(v.get("quantised", 0) for k, v in total.hist.items())},
    }
    return total, cov


def replay_case(case):
    if "tiny" in case:
        cfg = dict(case["tiny"])
        pics = tiny_pictures(cfg)
        c2 = {k: v for k, v in cfg.items() if k not in ("chroma", "chunk")}
        return run_config(c2, False, pics)[1]
    return run_config(case["config"], case.get("full", False))[1]
