"""C16 -- the encoder respects any level table it claims to satisfy.

Synthetic single-column level tables (swapped in-process as the test suite
does) x ordering patterns x codec configurations (DESIGN.md section 6, C16).
"""
import itertools

import mc  # noqa
from mc import pool, vc2run
from mc.tally import Tally
from props import encfeat

PROPERTY = "C16"
LEVEL = "exploration"
ASSUMPTIONS = [
    "synthetic tables: one column for level 1, every key 'any' except the stated restrictions; restrictions are derived from the values the unrestricted encoding actually uses (recorded by the validator)",
    "quick: every single-key restriction x 5 ordering patterns x 6 configurations; thorough: plus all pairs of restrictions (pattern '.*')",
    "outcome must be a typed refusal (UnsatisfiableCodecFeaturesError) or a stream the validator accepts under the same tables",
]

# Known finding F8: level-table keys the encoder never consults (see known_findings.json).
F8_KEYS = ("major_version", "minor_version", "wavelet_index_ho", "dwt_depth_ho", "slice_size_scaler", "quant_matrix_values", "qindex", "total_slice_bytes")

PATTERNS = [
    ".*",
    "sequence_header .* end_of_sequence",
    "(sequence_header .)* end_of_sequence",
    "sequence_header (. padding_data)* end_of_sequence",
    None,  # the real level 1-7 pattern (kept from the working tree)
]


def configurations():
    return [
        ("ld", dict(profile=0, picture_bytes=40)),
        ("hq", dict()),
        ("lossless", dict(lossless=True)),
        ("fragments", dict(fragment_slice_count=1)),
        ("asymmetric", dict(wavelet_index=1, wavelet_index_ho=3, dwt_depth=1, dwt_depth_ho=1)),
        ("fields", dict(picture_coding_mode=1, frame_height=8, source_sampling=1)),
        ("explicit-default-matrix", dict(wavelet_index=1, dwt_depth=2, quantization_matrix="explicit-default")),
        ("symmetric-v3", dict(wavelet_index=1, dwt_depth=1, fragment_slice_count=2)),
        # the same features given as plain integers instead of enum members
        ("ld-plain-ints", dict(profile=0, picture_bytes=40, plain_ints=True)),
        ("hq-plain-ints", dict(plain_ints=True)),
    ]


class Tables(object):
    """Context manager installing a synthetic level-1 column + pattern."""

    def __init__(self, restrictions, pattern, more_columns=()):
        self.restrictions = restrictions
        self.pattern = pattern
        self.more_columns = more_columns  # further columns of the same level: [[(key, values)...], ...]

    def __enter__(self):
        from vc2_conformance.level_constraints import LEVEL_CONSTRAINTS, LEVEL_SEQUENCE_RESTRICTIONS, LevelSequenceRestrictions
        from vc2_conformance.constraint_table import AnyValue, ValueSet
        from vc2_data_tables import Levels

        self.orig_c = list(LEVEL_CONSTRAINTS)
        self.orig_r = dict(LEVEL_SEQUENCE_RESTRICTIONS)
        keys = list(self.orig_c[0].keys())
        row = {k: AnyValue() for k in keys}
        row["level"] = ValueSet(1)
        for k, vals in self.restrictions:
            row[k] = ValueSet(*vals)
        del LEVEL_CONSTRAINTS[:]
        LEVEL_CONSTRAINTS.append(row)
        for col in self.more_columns:
            row2 = {k: AnyValue() for k in keys}
            row2["level"] = ValueSet(1)
            for k, vals in col:
                row2[k] = ValueSet(*vals)
            LEVEL_CONSTRAINTS.append(row2)
        if self.pattern is not None:
            LEVEL_SEQUENCE_RESTRICTIONS[Levels(1)] = LevelSequenceRestrictions(sequence_restriction_explanation="verif synthetic", sequence_restriction_regex=self.pattern)
        return self

    def __exit__(self, *a):
        from vc2_conformance.level_constraints import LEVEL_CONSTRAINTS, LEVEL_SEQUENCE_RESTRICTIONS

        del LEVEL_CONSTRAINTS[:]
        LEVEL_CONSTRAINTS.extend(self.orig_c)
        LEVEL_SEQUENCE_RESTRICTIONS.clear()
        LEVEL_SEQUENCE_RESTRICTIONS.update(self.orig_r)


def encode_and_validate(cname, kw):
    """Returns (label, problem, validator state)."""
    from vc2_conformance.encoder.exceptions import UnsatisfiableCodecFeaturesError

    kw = dict(kw)
    if "like_base" in kw:
        # the video parameters of a real base format, shrunk to 16x8, with a chosen frame rate
        from vc2_data_tables import BaseVideoFormats
        from vc2_conformance.pseudocode.video_parameters import set_source_defaults

        vp = set_source_defaults(BaseVideoFormats(kw.pop("like_base")))
        vp.update(frame_width=16, frame_height=8, clean_width=16, clean_height=8, left_offset=0, top_offset=0)
        vp["frame_rate_numer"], vp["frame_rate_denom"] = kw.pop("rate")
        kw["vp"] = vp
    if kw.get("quantization_matrix") == "explicit-default":
        from vc2_data_tables import QUANTISATION_MATRICES

        wi = kw.get("wavelet_index", 4)
        kw["quantization_matrix"] = {lv: dict(o) for lv, o in QUANTISATION_MATRICES[(wi, kw.get("wavelet_index_ho", wi), kw.get("dwt_depth", 1), kw.get("dwt_depth_ho", 0))].items()}
    cf = encfeat.make_cf("c16-" + cname, level=1, **kw)
    pics = [encfeat.make_picture(cf, "noise", None, k) for k in range(encfeat.n_pictures_for(cf, 1))]
    try:
        seq, data = encfeat.encode(cf, pics)
    except UnsatisfiableCodecFeaturesError as e:
        return "refused:" + type(e).__name__, None, None
    except Exception as e:  # noqa
        return "crash", "encoder raised %s: %s" % (type(e).__name__, e), None
    v = vc2run.validate(data, limits=False, keep_pictures=False)
    if v.kind != "accept" and type(v.exc).__name__ == "ValueNotAllowedInLevel" and getattr(v.exc, "key", None) in F8_KEYS:
        return "known-F8:" + v.exc.key, None, v.state
    if v.kind != "accept" and type(v.exc).__name__ == "ValueNotAllowedInLevel" and getattr(v.exc, "key", None) in ("asym_transform_index_flag", "asym_transform_flag") and _is_empty(v.exc.allowed_values):
        # the level forbids extended transform parameters altogether (= demands major_version < 3)
        # but the configuration needs version 3: same root cause as major_version in F8
        return "known-F8:" + v.exc.key + "=<no values>", None, v.state
    if v.kind != "accept" and type(v.exc).__name__ == "QuantisationMatrixValueNotAllowedInLevel":
        return "known-F8:quant_matrix_values", None, v.state
    if v.kind != "accept":
        return "rejected", "encoder produced a stream the validator rejects under the same level definition: %s: %s" % (v.label, str(v.exc)[:200]), v.state
    return "accepted", None, v.state


def _is_empty(vs):
    try:
        return not any(True for _ in vs.iter_values()) and not _is_any(vs)
    except Exception:  # noqa
        return False


def _is_any(vs):
    from vc2_conformance.constraint_table import AnyValue

    return isinstance(vs, AnyValue)


_ACTUAL = {}


def actual_values(cname, kw):
    """Values the unrestricted encoding uses for every constrained key."""
    if cname not in _ACTUAL:
        with Tables([], ".*"):
            label, problem, state = encode_and_validate(cname, kw)
        if label != "accepted":
            raise RuntimeError("unrestricted encoding of %s: %s %s" % (cname, label, problem))
        _ACTUAL[cname] = dict(state["_level_constrained_values"])
    return _ACTUAL[cname]


def other_value(v):
    if isinstance(v, bool):
        return not v
    return int(v) + 1


def restrictions_for(cname, kw):
    """[(key, (allowed values...))] single-key restrictions."""
    act = actual_values(cname, kw)
    out = []
    for k, v in act.items():
        if k == "level":
            continue
        if isinstance(v, bool):
            out.append((k, (True,)))
            out.append((k, (False,)))
        else:
            out.append((k, (int(v),)))
            out.append((k, (other_value(v),)))
            if k in ("base_video_format",):
                for b in (0, 1, 9):
                    out.append((k, (b,)))
            if k == "major_version":
                for m in (1, 2, 3):
                    out.append((k, (m,)))
    # keys never visited by this configuration's stream: restrict to a single value anyway
    from vc2_conformance.level_constraints import LEVEL_CONSTRAINTS

    for k in LEVEL_CONSTRAINTS[0].keys():
        if k not in act and k != "level":
            out.append((k, (0,)))
        if k != "level":
            out.append((k, ()))  # "<no values>", the real tables' idiom for "this field must not be coded"
    res = []
    for r in out:
        if r not in res:
            res.append(r)
    return res


def all_cases(tier):
    cases = []
    for cname, kw in configurations():
        rs = restrictions_for(cname, kw)
        for pi in range(len(PATTERNS)):
            cases.append((cname, (), pi))
            if tier != "thorough" and pi in (1, 2):
                continue  # quick: single restrictions x patterns {'.*', padding-interleaved, real level 1}
            for r in rs:
                cases.append((cname, (r,), pi))
        # all pairs of restrictions among the keys of one syntax group (the encoder decides these jointly)
        groups = (
            ("asym_transform_index_flag", "wavelet_index_ho", "asym_transform_flag", "dwt_depth_ho", "wavelet_index", "dwt_depth"),
            ("custom_quant_matrix", "quant_matrix_values", "wavelet_index", "dwt_depth"),
            ("slices_x", "slices_y", "slices_have_same_dimensions", "slice_prefix_bytes", "slice_bytes_numerator", "slice_bytes_denominator"),
            ("base_video_format", "custom_dimensions_flag", "custom_frame_rate_flag", "custom_signal_range_flag", "picture_coding_mode"),
        )
        seen_pairs = set()
        for g in groups:
            grs = [r for r in rs if r[0] in g]
            for a, b in itertools.combinations(grs, 2):
                if a[0] != b[0] and (a, b) not in seen_pairs:
                    seen_pairs.add((a, b))
                    cases.append((cname, (a, b), 0))
        if tier == "thorough":
            for a, b in itertools.combinations(rs, 2):
                if a[0] != b[0] and (a, b) not in seen_pairs:
                    cases.append((cname, (a, b), 0))
    cases += twocol_cases(tier)
    cases += hist_cases(tier)
    return cases


# Two columns of one level that admit different base video formats with different frame-rate rules
# (the shape of the real level 64): whichever (base format, column) the encoder picks, the
# validator -- which selects the column by the coded base format -- must agree.
TWOCOL_BASES = (13, 14, 9, 10)  # hd1080p_60, hd1080p_50, hd720p_60, hd720p_50
TWOCOL_RATES = ((60, 1), (50, 1), (60000, 1001), (25, 1))
TWOCOL_RULES = {
    "any": [],
    "no-override": [("custom_frame_rate_flag", (False,)), ("frame_rate_index", ()), ("frame_rate_numer", ()), ("frame_rate_denom", ())],
    "preset-60": [("custom_frame_rate_flag", (False, True)), ("frame_rate_index", (8,)), ("frame_rate_numer", ()), ("frame_rate_denom", ())],
    "preset-50": [("custom_frame_rate_flag", (False, True)), ("frame_rate_index", (6,)), ("frame_rate_numer", ()), ("frame_rate_denom", ())],
    "must-override-custom": [("custom_frame_rate_flag", (True,)), ("frame_rate_index", (0,))],
}


def twocol_cases(tier):
    out = []
    likes = TWOCOL_BASES[:2] if tier != "thorough" else TWOCOL_BASES
    for like in likes:
        for rate in TWOCOL_RATES:
            for x in TWOCOL_BASES:
                for y in TWOCOL_BASES:
                    if x == y:
                        continue
                    for ra in sorted(TWOCOL_RULES):
                        for rb in sorted(TWOCOL_RULES):
                            out.append(("twocol", like, rate, (x, ra), (y, rb)))
    return out


def run_twocol(case):
    _, like, rate, (x, ra), (y, rb) = case
    col_a = [("base_video_format", (x,))] + TWOCOL_RULES[ra]
    col_b = [("base_video_format", (y,))] + TWOCOL_RULES[rb]
    with Tables(col_a, ".*", more_columns=[col_b]):
        label, problem, _ = encode_and_validate("twocol", dict(like_base=like, rate=tuple(rate)))
    return label, problem


# Two configurations encoded one after the other in the same process under one level
# definition: nothing learnt about the first may leak into the second.
HIST_RESTRICTIONS = (
    (("slices_have_same_dimensions", (True,)),),
    (("slices_have_same_dimensions", (False,)),),
    (("custom_quant_matrix", (False,)),),
    (("custom_quant_matrix", (True,)),),
)


def hist_pool():
    out = []
    for pcm in (0, 1):
        for h in (8, 12):
            for sy in (1, 2, 3):
                for dd in (1, 2):
                    for qm in ("auto", "custom"):
                        out.append(dict(picture_coding_mode=pcm, source_sampling=pcm, frame_width=8, frame_height=h, slices_x=2, slices_y=sy, wavelet_index=1, dwt_depth=dd, quantization_matrix=qm))
    return out


def hist_cases(tier):
    out = []
    n = len(hist_pool())
    for ri in range(len(HIST_RESTRICTIONS)):
        for i in range(n):
            for j in range(n):
                if i == j:
                    continue
                a, b = hist_pool()[i], hist_pool()[j]
                ndiff = sum(1 for k in a if a[k] != b[k])
                if ndiff > (1 if tier != "thorough" else 2):
                    continue  # histories of configurations differing in one field (thorough: two)
                out.append(("hist", ri, i, j))
    return out


def run_hist(case):
    _, ri, i, j = case
    labels = []
    with Tables([(k, tuple(v)) for k, v in HIST_RESTRICTIONS[ri]], ".*"):
        for step, idx in enumerate((i, j)):
            label, problem, _ = encode_and_validate("hist", hist_pool()[idx])
            labels.append(label)
            if problem:
                return "+".join(labels), "step %d (%r): %s" % (step, hist_pool()[idx], problem)
            if label.startswith("known-F8"):
                return label, None
    return "+".join(l.split(":")[0] for l in labels), None


def run_case(case):
    if case[0] == "twocol":
        return run_twocol(case)
    if case[0] == "hist":
        return run_hist(case)
    cname, rs, pi = case
    kw = dict(configurations())[cname]
    with Tables([(k, tuple(v)) for k, v in rs], PATTERNS[pi]):
        label, problem, _ = encode_and_validate(cname, kw)
    return label, problem


def _shard(arg):
    tier, w, n = arg
    t = Tally()
    for case in all_cases(tier)[w::n]:
        label, problem = run_case(case)
        t.count("cases")
        t.outcome("outcome", label)
        if problem:
            t.violation("%r: %s" % (case, problem), {"case": case})
        elif label.startswith("known-F8"):
            t.known_finding("F8", {"case": case, "key": label.split(":")[1]})
        else:
            t.distinct("outcomes", (case, label.split(":")[0]) if case[0] in ("twocol", "hist") else (case[0], case[1], label.split(":")[0]))
            if case[0] in ("twocol", "hist"):
                t.outcome(case[0] + "_outcome", label.split(":")[0])
            t.sample(label.split(":")[0], case)
    return t


def run(ctx):
    n = 64
    cases = all_cases(ctx.tier)  # (also primes the cache of actual values before forking)
    total = pool.map_shards(_shard, [(ctx.tier, w, n) for w in range(n)])
    if total.n["cases"] != len(cases):
        total.error("evaluated %d of %d" % (total.n["cases"], len(cases)))
    acc = total.hist["outcome"].get("accepted", 0)
    ref = sum(v for k, v in total.hist["outcome"].items() if k.startswith("refused"))
    if (acc < 100 or ref < 100) and not total.violation_count:
        total.error("vacuous: %d accepted, %d refused" % (acc, ref))
    cov = {
        "evaluations": total.n["cases"],
        "distinct_nontrivial": total.ndistinct("outcomes"),
        "rule": "every synthetic level definition (restrictions x ordering pattern) x configuration is installed in-process, the real encoder is run, and any stream it returns is validated under the same definition; non-trivial = distinct (configuration, restriction set, outcome kind)",
        "exhaustive": True,
        "bounds": {"cases": len(cases), "configurations": [c for c, _ in configurations()], "patterns": [p or "<real level 1 pattern>" for p in PATTERNS], "restriction_arity": 1 if ctx.quick else 2,
            "two_step_histories": "%d histories: ordered pairs of configurations from a pool of %d (coding mode x height x slices_y x depth x matrix) differing in %s, encoded one after the other in one process under each of %r" % (len(hist_cases(ctx.tier)), len(hist_pool()), "one field" if ctx.quick else "one or two fields", [r[0] for r in HIST_RESTRICTIONS]),
            "two_column_levels": "%d definitions: two columns admitting different base formats from %r, each with a frame-rate rule from %r, x formats like %s at 16x8 with frame rates %r" % (len(twocol_cases(ctx.tier)), TWOCOL_BASES, sorted(TWOCOL_RULES), "13, 14" if ctx.quick else "each of them", TWOCOL_RATES)},
    }
    return total, cov


def replay_case(case):
    c = case["case"]
    if c[0] == "hist":
        return [p for p in [run_hist(tuple(c))[1]] if p]
    if c[0] == "twocol":
        return [p for p in [run_twocol(("twocol", c[1], tuple(c[2]), tuple(c[3]), tuple(c[4])))[1]] if p]
    rs = tuple((r[0], tuple(r[1])) for r in c[1])
    return [p for p in [run_case((c[0], rs, c[2]))[1]] if p]
