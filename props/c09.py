"""C09 -- every decoded picture is well-formed.

Builder streams carrying extreme coefficients for many wavelets / depths /
formats, plus every accepted stream of the deviation corpus; checked at the
validator's output-picture callback (DESIGN.md section 6, C09).
"""
import itertools

import mc  # noqa
from mc import pool, vc2run
from mc.tally import Tally
from build import vc2build as B
from props import corpus

PROPERTY = "C09"
LEVEL = "exploration"
ASSUMPTIONS = [
    "builder streams: one slice per picture; coefficient magnitudes 2^k, k in {0,7,15,31,63,127}, both signs, qindex in {0,1,4,63,127,255 (HQ) / 127 (LD)}",
    "full product position x value x qindex for 6 small configurations; for the other configurations every position and every (value, qindex) combination is covered at least once (rotating assignment)",
    "for corpus-derived accepted streams the expected component sizes are derived from the video parameters handed to the callback",
]
KS = (0, 7, 15, 31, 63, 127)
SYM = [(i, i) for i in range(7)]
ASYM6 = [(0, 1), (1, 4), (2, 3), (3, 0), (4, 6), (6, 5)]
DEPTHS = [(1, 0), (2, 0), (0, 2), (1, 1)]
FORMATS = [
    dict(frame_width=5, frame_height=3, color_diff_format_index=0, picture_coding_mode=0),
    dict(frame_width=7, frame_height=1, color_diff_format_index=0, picture_coding_mode=0),
    dict(frame_width=6, frame_height=4, color_diff_format_index=2, picture_coding_mode=0),
    dict(frame_width=6, frame_height=6, color_diff_format_index=1, picture_coding_mode=1),
]
BITDEPTHS = (8, 1, 10, 16)


def combos(hq):
    qs = (0, 1, 4, 63, 127, 255) if hq else (0, 1, 4, 63, 127)
    return [(k, s, q) for k in KS for s in (1, -1) for q in qs]


def make_format(wi, wiho, dd, ddho, fmt, depth, hq=True):
    asym = wi != wiho or ddho != 0
    kw = dict(fmt)
    kw.update(
        profile=B.PROFILE_HQ if hq else B.PROFILE_LD,
        major_version=3 if asym else (2 if hq else 1),
        wavelet_index=wi,
        dwt_depth=dd,
        slices_x=1,
        slices_y=1,
        signal_range=("custom", 0, (1 << depth) - 1, (1 << depth) >> 1, (1 << depth) - 1),
        luma_depth=depth,
        color_diff_depth=depth,
    )
    if asym:
        kw.update(wavelet_index_ho=wiho if wi != wiho else None, dwt_depth_ho=ddho if ddho else None)
        n = 1 + ddho + 3 * dd
        kw["quant_matrix"] = [(i * 2) % 5 for i in range(n)]
    if not hq:
        kw.update(slice_bytes_numerator=60, slice_bytes_denominator=1)
    return B.tiny_format(**kw)


def config_list(tier):
    quick = tier != "thorough"
    wl = SYM + ASYM6 if quick else [(a, b) for a in range(7) for b in range(7)]
    out = []
    for wi, wiho in wl:
        for dd, ddho in DEPTHS:
            for fi, fmt in enumerate(FORMATS):
                for depth in BITDEPTHS:
                    if quick and fi != 0 and depth != 8:
                        continue
                    out.append((wi, wiho, dd, ddho, fi, depth, True))
            out.append((wi, wiho, dd, ddho, 0, 8, False))  # one low-delay configuration
    return out


FULL = [(1, 1, 1, 0), (3, 3, 2, 0), (4, 0, 1, 1), (0, 0, 0, 2), (6, 6, 1, 0), (2, 5, 0, 2)]


def pictures_for(f, full):
    """[(comp, index, value, qindex)] one entry per picture."""
    ny = B.slice_coeff_count(f, "Y", 0, 0)
    nc = B.slice_coeff_count(f, "C1", 0, 0)
    hq = f.profile == B.PROFILE_HQ
    cs = combos(hq)
    positions = [("Y", i) for i in range(ny)] + [("C1", i) for i in range(nc)] + [("C2", i) for i in range(nc)]
    out = []
    if full:
        for comp, i in positions:
            for k, s, q in cs:
                out.append((comp, i, s * (1 << k), q))
    else:
        n = max(len(positions), len(cs))
        for j in range(n):
            comp, i = positions[j % len(positions)]
            k, s, q = cs[(j * 7 + i) % len(cs)] if j >= len(cs) else cs[j]
            out.append((comp, i, s * (1 << k), q))
    return out


def build_stream(f, pics, start=0):
    ny = B.slice_coeff_count(f, "Y", 0, 0)
    nc = B.slice_coeff_count(f, "C1", 0, 0)
    hq = f.profile == B.PROFILE_HQ
    units = [B.seq_header(f)]
    n_fields = len(pics) + (len(pics) % 2 if f.picture_coding_mode == 1 else 0)
    for j in range(n_fields):
        comp, i, v, q = pics[j] if j < len(pics) else pics[-1]
        y, c1, c2 = [0] * ny, [0] * nc, [0] * nc
        {"Y": y, "C1": c1, "C2": c2}[comp][i] = v
        if hq:
            kw = {"qindex": q, "coeffs": (y, c1, c2)}
        else:
            c = list(itertools.chain.from_iterable(zip(c1, c2)))
            kw = {"qindex": q, "y_coeffs": y, "c_coeffs": c}
        units.append(B.picture(f, (start + j) & 0xFFFFFFFF, slice_kw=kw))
    units.append(B.end_of_sequence())
    return B.assemble(units), n_fields


def check_pictures(v, expect_n, expect_dims, expect_depths, first_pn):
    problems = []
    if v.kind != "accept":
        return ["validator did not accept the builder stream: %s %s" % (v.label, str(v.exc)[:160])]
    if len(v.pictures) != expect_n:
        problems.append("%d pictures output for %d picture data units" % (len(v.pictures), expect_n))
    for j, (pic, vp, pcm) in enumerate(v.pictures):
        p = check_one(pic, expect_dims, expect_depths)
        if p:
            problems.append("picture %d: %s" % (j, p))
            break
        if first_pn is not None and pic["pic_num"] != (first_pn + j) & 0xFFFFFFFF:
            problems.append("picture %d: pic_num %r, coded %d" % (j, pic["pic_num"], (first_pn + j) & 0xFFFFFFFF))
            break
    return problems


def check_one(pic, dims, depths):
    for comp, (w, h), depth in (("Y", dims[0], depths[0]), ("C1", dims[1], depths[1]), ("C2", dims[1], depths[1])):
        a = pic[comp]
        if len(a) != h or any(len(r) != w for r in a):
            return "component %s is %dx%s, expected %dx%d" % (comp, len(a[0]) if a else 0, len(a), w, h)
        mx = (1 << depth) - 1
        for r in a:
            for s in r:
                if type(s) is not int:
                    return "component %s holds a %s sample" % (comp, type(s).__name__)
                if s < 0 or s > mx:
                    return "component %s sample %d outside [0, %d]" % (comp, s, mx)
    if type(pic.get("pic_num")) is not int:
        return "pic_num missing or not an int"
    return None


def run_builder_config(cfg, full):
    wi, wiho, dd, ddho, fi, depth, hq = cfg
    f = make_format(wi, wiho, dd, ddho, FORMATS[fi], depth, hq)
    pics = pictures_for(f, full)
    problems = []
    npics = 0
    for c0 in range(0, len(pics), 72):
        data, n = build_stream(f, pics[c0 : c0 + 72], start=0xFFFFFFF0 + c0)
        v = vc2run.validate(data, limits=False)
        dims = (B.component_dims(f, "Y"), B.component_dims(f, "C1"))
        problems = check_pictures(v, n, dims, (depth, depth), 0xFFFFFFF0 + c0)
        npics += n
        if problems:
            return problems, npics, {"chunk": c0}
    return [], npics, None


def expected_picture_count(data):
    n = 0
    for off, code, npo, ppo in B.walk_parse_infos(data):
        if code in (B.PC_LD_PICTURE, B.PC_HQ_PICTURE):
            n += 1
        elif code in (B.PC_LD_FRAGMENT, B.PC_HQ_FRAGMENT):
            if data[off + 13 + 6 : off + 13 + 8] == b"\x00\x00":
                n += 1
    return n


def run_corpus_case(case):
    data = corpus.materialise(case)
    try:
        v = vc2run.validate(data, limits=True)
    except vc2run.OutOfScope:
        return None, []
    if v.kind != "accept":
        return False, []
    problems = []
    n = expected_picture_count(data)
    if n != len(v.pictures):
        problems.append("%d pictures output, stream holds %d picture units / fragmented pictures" % (len(v.pictures), n))
    for j, (pic, vp, pcm) in enumerate(v.pictures):
        w, h = vp["frame_width"], vp["frame_height"]
        if pcm == 1:
            h //= 2
        cw, ch = w, h
        cdf = int(vp["color_diff_format_index"])
        if cdf in (1, 2):
            cw //= 2
        if cdf == 2:
            ch //= 2
        depths = ((vp["luma_excursion"]).bit_length(), (vp["color_diff_excursion"]).bit_length())
        p = check_one(pic, ((w, h), (cw, ch)), depths)
        if p:
            problems.append("picture %d: %s" % (j, p))
            break
    return True, problems


# -- how the output callback is represented ------------------------------------------------------
class _CallableList(list):
    """A collection that collects: callable, and falsy while empty."""

    def __call__(self, picture, video_parameters, picture_coding_mode):
        self.append(picture["pic_num"])


class _FalsyCallable(object):
    def __init__(self):
        self.got = []

    def __bool__(self):
        return False

    def __call__(self, picture, video_parameters, picture_coding_mode):
        self.got.append(picture["pic_num"])


class _Method(object):
    def __init__(self):
        self.got = []

    def cb(self, picture, video_parameters, picture_coding_mode):
        self.got.append(picture["pic_num"])


CALLBACK_KINDS = ["function", "bound-method", "partial", "callable-list", "falsy-callable", "absent"]


def run_callback_case(si, kind):
    """Decode an unmodified seed stream with the output callback given in another representation:
    one call per picture whatever the object looks like (none if the entry is absent)."""
    import functools
    import io

    from vc2_conformance import decoder
    from vc2_conformance.pseudocode.state import State

    data = corpus.materialise((si, "id"))
    want = expected_picture_count(data)
    got = None
    if kind == "function":
        acc = []
        state = State(_output_picture_callback=lambda p, v, m: acc.append(p["pic_num"]))
        got = acc
    elif kind == "bound-method":
        o = _Method()
        state = State(_output_picture_callback=o.cb)
        got = o.got
    elif kind == "partial":
        acc = []
        state = State(_output_picture_callback=functools.partial(lambda tag, p, v, m: acc.append(p["pic_num"]), "x"))
        got = acc
    elif kind == "callable-list":
        o = _CallableList()
        state = State(_output_picture_callback=o)
        got = o
    elif kind == "falsy-callable":
        o = _FalsyCallable()
        state = State(_output_picture_callback=o)
        got = o.got
    else:
        state = State()
    try:
        decoder.init_io(state, io.BytesIO(data))
        decoder.parse_stream(state)
    except decoder.ConformanceError:
        return None, []
    if got is not None and len(got) != want:
        return True, ["callback given as %s: called %d times for %d pictures" % (kind, len(got), want)]
    return True, []


def _shard(arg):
    tier, w, n = arg
    t = Tally()
    if w == 0:
        for si in range(len(corpus.seeds())):
            for kind in CALLBACK_KINDS:
                acc, problems = run_callback_case(si, kind)
                if acc:
                    t.count("callback_cases")
                if problems:
                    t.violation("seed %d: %s" % (si, problems[0]), {"callback": [si, kind]})
    cfgs = config_list(tier)
    for i in range(w, len(cfgs), n):
        cfg = cfgs[i]
        full = (cfg[0], cfg[1], cfg[2], cfg[3]) in FULL and cfg[4] == 0 and cfg[5] == 8 and cfg[6]
        problems, npics, where = run_builder_config(cfg, full)
        t.count("builder_configs")
        t.count("pictures", npics)
        if problems:
            t.violation("builder %r: %s" % (cfg, problems[0]), {"builder": list(cfg), "full": full})
        else:
            t.distinct("ok_configs", cfg)
            t.sample("builder", {"config": cfg, "pictures": npics})
    cc = corpus.enumerate_cases("quick", {"id", "sub", "tok", "pi", "enc"} if tier != "thorough" else None)
    for case in cc[w::n]:
        acc, problems = run_corpus_case(case)
        t.count("corpus_cases")
        if acc:
            t.count("corpus_accepted")
            t.distinct("ok_corpus", case)
        if problems:
            t.violation("corpus %r: %s" % (case, problems[0]), {"corpus": case})
    return t


def run(ctx):
    n = 64
    total = pool.map_shards(_shard, [(ctx.tier, w, n) for w in range(n)])
    cfgs = config_list(ctx.tier)
    if total.n["builder_configs"] != len(cfgs):
        total.error("evaluated %d of %d builder configs" % (total.n["builder_configs"], len(cfgs)))
    if total.n["corpus_accepted"] < 100 and not total.violation_count:
        total.error("vacuous: %d accepted corpus streams" % total.n["corpus_accepted"])
    cov = {
        "evaluations": total.n["pictures"] + total.n["corpus_cases"],
        "distinct_nontrivial": total.ndistinct("ok_configs") + total.ndistinct("ok_corpus"),
        "rule": "builder pictures with one extreme coefficient each (all positions, all value/qindex combinations, see assumptions) decoded by the real validator and checked at the output callback; plus every accepted stream of the deviation corpus; non-trivial = distinct configurations / accepted corpus streams whose every output picture was checked",
        "exhaustive": True,
        "bounds": {"builder_configs": len(cfgs), "builder_pictures": total.n["pictures"], "corpus_cases": total.n["corpus_cases"], "corpus_accepted": total.n["corpus_accepted"], "full_product_configs": FULL},
    }
    return total, cov


def replay_case(case):
    if "callback" in case:
        return run_callback_case(*case["callback"])[1]
    if "builder" in case:
        return run_builder_config(tuple(case["builder"]), case["full"])[0]
    c = tuple(tuple(x) if isinstance(x, list) else x for x in case["corpus"])
    return run_corpus_case(c)[1]
