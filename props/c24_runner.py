"""Runs the real vc2-test-case-generator main() with the small natural pictures swapped in
(used by C24 in subprocesses with different PYTHONHASHSEED values)."""
import os
import sys

if os.environ.get("VERIF_REPO"):
    sys.path.insert(0, os.environ["VERIF_REPO"])


def swap():
    from vc2_conformance_data import NATURAL_PICTURES_FILENAMES as NP

    NP[:] = [os.path.join("/repo/tests/test_images", f) for f in ("square.raw", "wide.raw", "tall.raw")]


if __name__ == "__main__":
    swap()
    import logging

    logging.disable(logging.WARNING)
    from vc2_conformance.scripts.vc2_test_case_generator.cli import main

    sys.exit(main(sys.argv[1:]))
