"""C08 -- the bitstream deserialiser and the validator read identical content.

Differential oracle between two implementations inside the repository that the
property says must agree (DESIGN.md section 6, C08): for every accepted stream
(a) the sequence of primitive values read by the validator's reader functions
equals the sequence the Deserialiser reads, and (b) the deserialiser's slice
coefficients, dequantised with an independent inverse quantiser and DC
predicted, equal the transform arrays the validator hands to picture_decode.
"""
import copy
import io
import itertools
import sys

import mc  # noqa
from mc import pool, vc2run
from mc.tally import Tally
from build import vc2build as B
from models import quantref
from props import corpus, encfeat, encspace

PROPERTY = "C08"
LEVEL = "exploration"
ASSUMPTIONS = [
    "only streams the validator accepts are in scope",
    "inverse quantisation and DC prediction of the deserialiser's raw coefficients are re-implemented in the harness (models/quantref.py + standard 13.4); default quantisation matrices come from vc2_data_tables (a separate package)",
    "the validator's reads are observed by wrapping its reader functions in the decoder modules' namespaces; the deserialiser's by MonitoredDeserialiser",
]

_LOG = None
_SNAPS = None
_installed = False
READERS = ("read_bool", "read_uint", "read_nbits", "read_uint_lit", "read_sint", "read_sintb", "read_uintb", "read_boolb")
DECODER_MODULES = ("stream", "sequence_header", "picture_syntax", "transform_data_syntax", "fragment_syntax")


def install():
    global _installed
    if _installed:
        return
    _installed = True
    for mname in DECODER_MODULES:
        m = vc2run._mod("vc2_conformance.decoder." + mname)
        for rname in READERS:
            if hasattr(m, rname):
                setattr(m, rname, _logging(getattr(m, rname), rname))
    st = vc2run._mod("vc2_conformance.decoder.stream")
    real_pd = st.picture_decode

    def picture_decode(state):
        if _SNAPS is not None:
            _SNAPS.append(
                {
                    "y": copy.deepcopy(state["y_transform"]),
                    "c1": copy.deepcopy(state["c1_transform"]),
                    "c2": copy.deepcopy(state["c2_transform"]),
                    "picture_number": state["picture_number"],
                }
            )
        return real_pd(state)

    st.picture_decode = picture_decode


def _logging(fn, name):
    def wrapper(state, *args):
        v = fn(state, *args)
        if _LOG is not None:
            if name == "read_uint_lit" and args and args[0] == 0:
                pass
            _LOG.append((name, args, v))
        return v

    wrapper.__name__ = fn.__name__
    return wrapper


def norm_validator_log(log):
    out = []
    for name, args, v in log:
        if name in ("read_bool", "read_boolb"):
            out.append(("b", bool(v)))
        elif name == "read_uint_lit":
            n = args[0]
            out.append(("i", int(v), 8 * n))
        elif name == "read_nbits":
            out.append(("i", int(v), args[0]))
        else:
            out.append(("i", int(v), None))
    return out


def run_validator(data):
    global _LOG, _SNAPS
    install()
    _LOG, _SNAPS = [], []
    try:
        v = vc2run.validate(data, limits=True, keep_pictures=False)
        return v, norm_validator_log(_LOG), _SNAPS
    finally:
        _LOG, _SNAPS = None, None


def run_deserialiser(data):
    from vc2_conformance import bitstream as bs
    from vc2_conformance.pseudocode.state import State
    from bitarray import bitarray

    log = []

    def monitor(des, target, value):
        if isinstance(value, bool):
            log.append(("b", value, target))
        elif isinstance(value, int):
            log.append(("i", int(value), target))
        elif isinstance(value, (bytes, bytearray)):
            log.append(("bytes", bytes(value), target))
        else:
            log.append(("pad", None, target))

    try:
        with bs.MonitoredDeserialiser(monitor, bs.BitstreamReader(io.BytesIO(bytes(data)))) as des:
            bs.parse_stream(des, State())
        return des.context, log, None
    except Exception as e:  # noqa
        return None, log, e


def compare_logs(vlog, dlog):
    """Value-by-value comparison in read order; returns a problem string or None."""
    d = []
    for kind, v, target in dlog:
        if kind == "pad":
            continue
        if kind == "bytes":
            if target == "prefix_bytes":
                d.append(("i", int.from_bytes(v, "big"), "prefix_bytes"))
            else:
                for b in v:
                    d.append(("i", b, target))
        else:
            d.append((kind, v, target))
    n = min(len(vlog), len(d))
    for k in range(n):
        a, b = vlog[k], d[k]
        if a[0] != b[0] or a[1] != b[1]:
            return "read #%d differs: validator %r, deserialiser %r (target %r)" % (k, a[:2], b[:2], b[2])
    if len(vlog) != len(d):
        return "validator read %d values, deserialiser %d (first extra: %r)" % (len(vlog), len(d), (vlog[n] if len(vlog) > n else d[n]))
    return None


# -- reconstruction of transform arrays from the deserialiser's context ------
def _geom(st):
    class G(dict):
        __getattr__ = dict.__getitem__

    return G(
        dwt_depth=st["dwt_depth"],
        dwt_depth_ho=st["dwt_depth_ho"],
        slices_x=st["slices_x"],
        slices_y=st["slices_y"],
        dims={"Y": (st["luma_width"], st["luma_height"]), "C": (st["color_diff_width"], st["color_diff_height"])},
    )


def subband_dims(g, comp, level):
    w, h = g.dims["Y" if comp == "Y" else "C"]
    dd, ddh = g.dwt_depth, g.dwt_depth_ho
    sw_ = 1 << (ddh + dd)
    sh_ = 1 << dd
    pw = sw_ * ((w + sw_ - 1) // sw_)
    ph = sh_ * ((h + sh_ - 1) // sh_)
    sw = pw // (1 << (ddh + dd)) if level == 0 else pw // (1 << (ddh + dd - level + 1))
    sh = ph // (1 << dd) if level <= ddh else ph // (1 << (ddh + dd - level + 1))
    return sw, sh


def bands(g):
    dd, ddh = g.dwt_depth, g.dwt_depth_ho
    out = [(0, "LL")] if ddh == 0 else [(0, "L")] + [(l, "H") for l in range(1, ddh + 1)]
    for l in range(ddh + 1, ddh + dd + 1):
        out += [(l, "HL"), (l, "LH"), (l, "HH")]
    return out


def quant_matrix_of(tp):
    from vc2_data_tables import QUANTISATION_MATRICES

    wi = int(tp["wavelet_index"])
    dd = tp["dwt_depth"]
    etp = tp.get("extended_transform_parameters", {})
    wiho = int(etp["wavelet_index_ho"]) if etp.get("asym_transform_index_flag") else wi
    ddho = etp["dwt_depth_ho"] if etp.get("asym_transform_flag") else 0
    qm = tp["quant_matrix"]
    if qm["custom_quant_matrix"]:
        vals = list(qm["quant_matrix"])
        out = {}
        it = iter(vals)
        if ddho == 0:
            out[0] = {"LL": next(it)}
        else:
            out[0] = {"L": next(it)}
            for l in range(1, ddho + 1):
                out[l] = {"H": next(it)}
        for l in range(ddho + 1, ddho + dd + 1):
            out[l] = {"HL": next(it), "LH": next(it), "HH": next(it)}
        return out
    return QUANTISATION_MATRICES[(wi, wiho, dd, ddho)]


def dc_predict(band):
    for y in range(len(band)):
        for x in range(len(band[0]) if band else 0):
            if x > 0 and y > 0:
                s = band[y][x - 1] + band[y - 1][x - 1] + band[y - 1][x]
                p = (s + 1) // 3  # mean of three: floor((a+b+c + 1)/3)  (5.5.4 mean: (sum + n//2)//n)
            elif x > 0:
                p = band[0][x - 1]
            elif y > 0:
                p = band[y - 1][0]
            else:
                p = 0
            band[y][x] += p


def rebuild(st, tp, slices, ld):
    """Transform arrays {comp: {level: {orient: 2-D list}}} from deserialised slices."""
    g = _geom(st)
    qm = quant_matrix_of(tp)
    arr = {}
    for comp in ("Y", "C1", "C2"):
        arr[comp] = {}
        for lv, orient in bands(g):
            sw, sh = subband_dims(g, comp, lv)
            arr[comp].setdefault(lv, {})[orient] = [[0] * sw for _ in range(sh)]
    for sl in slices:
        sx, sy = sl["_sx"], sl["_sy"]
        q = sl["qindex"]
        if ld:
            iters = {"Y": iter(sl["y_transform"]), "C": iter(sl["c_transform"])}
        else:
            iters = {"Y": iter(sl["y_transform"]), "C1": iter(sl["c1_transform"]), "C2": iter(sl["c2_transform"])}
        for comp in (("Y", "C") if ld else ("Y", "C1", "C2")):
            for lv, orient in bands(g):
                qi = max(q - qm[lv][orient], 0)
                sw, sh = subband_dims(g, "Y" if comp == "Y" else "C1", lv)
                x1, x2 = (sw * sx) // g.slices_x, (sw * (sx + 1)) // g.slices_x
                y1, y2 = (sh * sy) // g.slices_y, (sh * (sy + 1)) // g.slices_y
                for y in range(y1, y2):
                    for x in range(x1, x2):
                        if comp == "C":
                            arr["C1"][lv][orient][y][x] = quantref.inverse(next(iters["C"]), qi)
                            arr["C2"][lv][orient][y][x] = quantref.inverse(next(iters["C"]), qi)
                        else:
                            arr[comp][lv][orient][y][x] = quantref.inverse(next(iters[comp]), qi)
    if ld:
        o = "LL" if g.dwt_depth_ho == 0 else "L"
        for comp in ("Y", "C1", "C2"):
            dc_predict(arr[comp][0][o])
    return arr


def pictures_from_context(ctx):
    """[(picture_number, arrays)] in stream order."""
    out = []
    for seq in ctx["sequences"]:
        pending = None
        for du in seq["data_units"]:
            code = int(du["parse_info"]["parse_code"])
            ld = code in (0xC8, 0xCC)
            if "picture_parse" in du:
                pp = du["picture_parse"]
                wt = pp["wavelet_transform"]
                td = wt["transform_data"]
                sl = td["ld_slices"] if ld else td["hq_slices"]
                out.append((pp["picture_header"]["picture_number"], rebuild(td["_state"], wt["transform_parameters"], sl, ld)))
            elif "fragment_parse" in du:
                fp = du["fragment_parse"]
                fh = fp["fragment_header"]
                if fh["fragment_slice_count"] == 0:
                    pending = {"tp": fp["transform_parameters"], "slices": [], "pn": fh["picture_number"], "st": None}
                else:
                    fd = fp["fragment_data"]
                    pending["st"] = fd["_state"]
                    pending["slices"].extend(fd["ld_slices"] if ld else fd["hq_slices"])
                    st = pending["st"]
                    if len(pending["slices"]) == st["slices_x"] * st["slices_y"]:
                        out.append((pending["pn"], rebuild(st, pending["tp"], pending["slices"], ld)))
                        pending = None
    return out


def compare_stream(data):
    """Returns (in_scope, problems)."""
    v, vlog, snaps = run_validator(data)
    if v.kind != "accept":
        if v.kind == "crash":
            return False, []
        return False, []
    ctx, dlog, err = run_deserialiser(data)
    if err is not None:
        return True, ["deserialiser failed on an accepted stream: %s: %s" % (type(err).__name__, err)]
    p = compare_logs(vlog, dlog)
    if p:
        return True, [p]
    try:
        pics = pictures_from_context(ctx)
    except Exception as e:  # noqa
        return True, ["could not walk the deserialised description: %s: %s" % (type(e).__name__, e)]
    if len(pics) != len(snaps):
        return True, ["validator decoded %d pictures, deserialiser holds %d" % (len(snaps), len(pics))]
    for k, ((pn, arr), snap) in enumerate(zip(pics, snaps)):
        if pn != snap["picture_number"]:
            return True, ["picture %d number: deserialiser %d validator %d" % (k, pn, snap["picture_number"])]
        for comp, key in (("Y", "y"), ("C1", "c1"), ("C2", "c2")):
            want = {lv: dict(o) for lv, o in snap[key].items()}
            if arr[comp] != want:
                return True, ["picture %d component %s: dequantised deserialiser coefficients differ from the validator's transform data" % (k, comp)]
    return True, []


# -- stream families ----------------------------------------------------------
def payload_streams(tier):
    """Builder streams whose slice payloads are every bit string of the payload length."""
    T = B.tiny_format
    quick = tier != "thorough"
    out = []
    geoms = [
        ("hq-d0", T(frame_width=2, frame_height=2, slices_x=1, dwt_depth=0)),
        ("hq-d1-q", T(frame_width=4, frame_height=2, slices_x=1, dwt_depth=1, wavelet_index=1)),
        ("hq-pfx-scaler", T(frame_width=2, frame_height=2, slices_x=1, slice_prefix_bytes=1, slice_size_scaler=2)),
        ("hq-custom-qm", T(frame_width=4, frame_height=2, slices_x=1, dwt_depth=1, quant_matrix=[0, 2, 2, 5])),
        ("hq-asym", T(major_version=3, frame_width=4, frame_height=2, slices_x=1, dwt_depth=0, dwt_depth_ho=1, wavelet_index_ho=1, quant_matrix=[1, 0])),
    ]
    for name, f in geoms:
        for qindex in (0, 7):
            for comp in range(3):
                # one component carries every 1-byte payload (scaler bytes), the others are empty
                nbytes = f.slice_size_scaler
                chunk = []
                for v in range(256):
                    bits = format(v, "08b") + "1" * (8 * (nbytes - 1))
                    pl = ["", "", ""]
                    pl[comp] = bits
                    chunk.append({"qindex": qindex, "payloads": tuple(pl), "prefix": (b"\xA5" if f.slice_prefix_bytes else None)})
                for c0 in range(0, 256, 64):
                    out.append(("%s-q%d-c%d-%d" % (name, qindex, comp, c0), f, chunk[c0 : c0 + 64]))
    if not quick:
        f = geoms[0][1]
        for hi in range(256):
            chunk = [{"qindex": 3, "payloads": (format(hi, "08b") + format(lo, "08b"), "", "")} for lo in range(256)]
            for c0 in range(0, 256, 64):
                out.append(("hq-d0-2byte-%d-%d" % (hi, c0), f, chunk[c0 : c0 + 64]))
    # extreme coefficient magnitudes (exp-Golomb codes far longer than a machine word)
    f = geoms[1][1]
    ny = B.slice_coeff_count(f, "Y", 0, 0)
    chunk = []
    for k in (1, 8, 31, 32, 63, 64, 127, 128, 255, 256, 257, 300, 512, 1000):
        for v in ((1 << k) - 2, (1 << k) - 1, 1 << k):
            for sign in (1, -1):
                y = [0] * ny
                y[(k + (sign > 0)) % ny] = sign * v
                y[0] = y[0] or 3
                chunk.append({"qindex": 0, "coeffs": (y, [sign * v] + [0] * (ny - 1), [0] * (ny - 1) + [-sign * v])})
    fbig = f.but(slice_size_scaler=8)
    for c0 in range(0, len(chunk), 12):
        out.append(("hq-extreme-%d" % c0, fbig, chunk[c0 : c0 + 12]))
    # low delay with a luma block far longer than its coefficients (long, unaligned y_block_padding):
    # every slice_y_length from "just the coefficients" up to the whole slice, three fill patterns
    for sb in (9, 14, 23):
        fpad = T(profile=B.PROFILE_LD, major_version=1, frame_width=2, frame_height=2, slices_x=1, dwt_depth=0, slice_bytes_numerator=sb, slice_bytes_denominator=1)
        total = 8 * sb
        lb = B.intlog2(total - 7)
        avail = total - 7 - lb
        chunk = []
        for y_coeffs in ([0, 0, 0, 0], [1, -2, 0, 3], [5, 0, 0, 0]):
            ybits = "".join(B.sint_bits(v) for v in y_coeffs)
            for syl in range(len(ybits), avail + 1):
                pad = ("10" * avail)[: syl - len(ybits)]
                cb = ("0110111" * avail)[: avail - syl]
                chunk.append({"qindex": 2, "slice_y_length": syl, "y_bits": ybits + pad, "c_bits": cb, "fill": "1"})
        for c0 in range(0, len(chunk), 64):
            out.append(("ld-ypad-sb%d-%d" % (sb, c0), fpad, chunk[c0 : c0 + 64]))
    fld = T(profile=B.PROFILE_LD, major_version=1, frame_width=4, frame_height=2, slices_x=1, dwt_depth=1, wavelet_index=1, slice_bytes_numerator=700, slice_bytes_denominator=1)
    nyl = B.slice_coeff_count(fld, "Y", 0, 0)
    chunk = []
    for k in (1, 31, 64, 127, 128, 255, 256, 257, 300, 1000):
        for v in ((1 << k) - 1, 1 << k):
            for sign in (1, -1):
                y = [0] * nyl
                y[k % nyl] = sign * v
                c = [0] * (2 * nyl)
                c[(k + 1) % (2 * nyl)] = -sign * v
                chunk.append({"qindex": 0, "y_coeffs": y, "c_coeffs": c})
    for c0 in range(0, len(chunk), 10):
        out.append(("ld-extreme-%d" % c0, fld, chunk[c0 : c0 + 10]))
    # low delay: slice_bytes 1, 2 (and 3 in thorough): every slice_y_length, every payload
    for sb in ((1, 2) if quick else (1, 2, 3)):
        f = T(profile=B.PROFILE_LD, major_version=1, frame_width=2, frame_height=2, slices_x=1, dwt_depth=0, slice_bytes_numerator=sb, slice_bytes_denominator=1)
        total = 8 * sb
        lb = B.intlog2(total - 7)
        avail = total - 7 - lb
        chunk = []
        for syl in range(0, min(avail, (1 << lb) - 1) + 1):
            for v in range(1 << avail):
                bits = format(v, "0%db" % avail) if avail else ""
                chunk.append({"qindex": 1, "slice_y_length": syl, "y_bits": bits[:syl], "c_bits": bits[syl:], "fill": "0"})
        for c0 in range(0, len(chunk), 64):
            out.append(("ld-sb%d-%d" % (sb, c0), f, chunk[c0 : c0 + 64]))
    return out


def build_payload_stream(f, chunk):
    units = [B.seq_header(f)]
    for i, kw in enumerate(chunk):
        kw = {k: v for k, v in kw.items() if v is not None}
        units.append(B.picture(f, i, slice_kw=kw))
    units.append(B.end_of_sequence())
    return B.assemble(units)


def encoder_configs(tier):
    out = []
    for c in encspace.reduced_core(tier):
        for sx, sy, fsc in ((2, 1, 0), (3, 2, 2), (1, 2, 1)):
            out.append(dict(c, slices_x=sx, slices_y=sy, fragment_slice_count=fsc))
        out.append(dict(c, color_diff_format_index=2, picture_coding_mode=1, frame_height=8))
        out.append(dict(c, quantization_matrix="custom"))
    return out


def corpus_cases(tier):
    kinds = {"id", "sub", "tok", "pi"} if tier != "thorough" else None
    return [c for c in corpus.enumerate_cases("quick", kinds)]


def _shard(arg):
    tier, w, n = arg
    t = Tally()

    def handle(source, case, data):
        try:
            in_scope, problems = compare_stream(data)
        except vc2run.OutOfScope:
            in_scope, problems = False, []
        t.count("streams")
        t.count("src:" + source)
        if in_scope:
            t.count("in_scope")
            t.count("in_scope:" + source)
            if not problems:
                t.distinct("accepted_streams", data)
                t.sample(source, case)
        if problems:
            t.violation("%s: %s" % (source, problems[0]), {"source": source, "case": case})

    ps = payload_streams(tier)
    for i in range(w, len(ps), n):
        name, f, chunk = ps[i]
        handle("payload", {"index": i, "name": name}, build_payload_stream(f, chunk))
    ec = encoder_configs(tier)
    for i in range(w, len(ec), n):
        kw, opts = encspace.split(ec[i])
        from vc2_conformance.encoder.exceptions import UnsatisfiableCodecFeaturesError

        try:
            cf = encfeat.make_cf(**kw)
            data = encfeat.encode_stream(cf, "noise", 1)
        except UnsatisfiableCodecFeaturesError:
            continue
        handle("encoder", {"config": ec[i]}, data)
    cc = corpus_cases(tier)
    for case in cc[w::n]:
        handle("corpus", {"case": case}, corpus.materialise(case))
    return t


def run(ctx):
    n = 64
    total = pool.map_shards(_shard, [(ctx.tier, w, n) for w in range(n)])
    if total.n["in_scope:payload"] < 100 or total.n["in_scope:encoder"] < 20 or total.n["in_scope:corpus"] < 100:
        if not total.violation_count:
            total.error("vacuous: in-scope streams payload=%d encoder=%d corpus=%d" % (total.n["in_scope:payload"], total.n["in_scope:encoder"], total.n["in_scope:corpus"]))
    cov = {
        "evaluations": total.n["streams"],
        "distinct_nontrivial": total.ndistinct("accepted_streams"),
        "in_scope": total.n["in_scope"],
        "rule": "streams = (a) builder pictures whose slice payloads are every bit string of the stated length, (b) real-encoder output for a configuration product, (c) every accepted stream of the C02 deviation corpus (kinds id/sub/tok/pi in quick, all in thorough); non-trivial = distinct accepted streams on which both read logs and all dequantised transform arrays were compared",
        "exhaustive": True,
        "bounds": {"payload_streams": total.n["src:payload"], "encoder_streams": total.n["src:encoder"], "corpus_cases": total.n["src:corpus"], "payload_bytes_per_component": "1 byte exhaustively; 2 bytes (luma, one geometry) in thorough; LD slice_bytes 1-2 (3 in thorough) with every slice_y_length"},
    }
    return total, cov


def replay_case(case):
    src, c = case["source"], case["case"]
    if src == "payload":
        name, f, chunk = payload_streams("thorough")[c["index"]] if c["index"] >= len(payload_streams("quick")) or payload_streams("quick")[c["index"]][0] != c["name"] else payload_streams("quick")[c["index"]]
        data = build_payload_stream(f, chunk)
    elif src == "encoder":
        kw, opts = encspace.split(c["config"])
        data = encfeat.encode_stream(encfeat.make_cf(**kw), "noise", 1)
    else:
        data = corpus.materialise(tuple(tuple(x) if isinstance(x, list) else x for x in c["case"]))
    return compare_stream(data)[1]
