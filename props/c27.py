"""C27 -- fixed-entry dictionaries never hold undeclared keys and pickle faithfully.

Explicit-state search over operation histories on the real fixeddict types,
oracle = plain dict + declared-key set (DESIGN.md section 6, C27).
"""
import copy
import itertools
import pickle

import mc
from mc import pool
from mc.tally import Tally

PROPERTY = "C27"
LEVEL = "model_checking"
ASSUMPTIONS = [
    "values drawn from a two-element alphabet per type; keys: two declared + one undeclared",
    "partial effects of a rejected multi-key update may be either none or the declared keys preceding the undeclared one",
]

BOGUS = "bogus_key_not_declared"


def canon(x):
    """Canonical form including type names at every level (no abstraction)."""
    if isinstance(x, dict):
        return (type(x).__name__, tuple(sorted((repr(k), canon(v)) for k, v in x.items())))
    if isinstance(x, (list, tuple)):
        return (type(x).__name__, tuple(canon(v) for v in x))
    return (type(x).__name__, repr(x))


def get_types():
    from vc2_conformance.pseudocode.state import State
    from vc2_conformance.pseudocode.video_parameters import VideoParameters
    from vc2_conformance.codec_features import CodecFeatures
    from vc2_conformance.bitstream import vc2_fixeddicts as fd

    nested1 = [fd.Sequence(data_units=[fd.DataUnit(parse_info=fd.ParseInfo(parse_code=16))])]
    nested2 = []
    return [
        ("State", State, ("major_version", "_last_picture_number"), (1, 2)),
        ("VideoParameters", VideoParameters, ("frame_width", "luma_offset"), (1, 2)),
        ("CodecFeatures", CodecFeatures, ("name", "picture_bytes"), ("x", None)),
        ("ParseInfo", fd.ParseInfo, ("parse_code", "next_parse_offset"), (0, 13)),
        ("Stream", fd.Stream, ("sequences", "_verif_missing_"), (nested1, nested2)),
    ]


def other_type(T):
    from vc2_conformance.pseudocode.state import State
    from vc2_conformance.pseudocode.video_parameters import VideoParameters

    return VideoParameters if T is State else State


def type_entry(tname):
    for t in get_types():
        if t[0] == tname:
            name, T, keys, vals = t
            keys = tuple(k for k in keys if k in T.entry_objs)
            if len(keys) < 2:  # Stream has one declared key only
                keys = tuple(T.entry_objs.keys())[:2]
            return T, keys, vals
    raise KeyError(tname)


def alphabet(keys):
    """The operation alphabet, simplest first.  Ops are plain tuples."""
    ks = list(keys) + [BOGUS]
    ops = []
    for k in ks:
        for vi in (0, 1):
            ops.append(("setitem", k, vi))
    for k in ks:
        ops.append(("setdefault", k, 0))
        ops.append(("setdefault", k, 1))
    for form in ("dict", "pairs", "kwargs", "fixeddict"):
        for k in ks:
            if form == "fixeddict" and k == BOGUS:
                continue
            ops.append(("update", form, ((k, 1),)))
    # two-key updates: declared+undeclared in both orders, and two declared
    k0 = keys[0]
    k1 = keys[1] if len(keys) > 1 else keys[0]
    for form in ("dict", "pairs"):
        ops.append(("update", form, ((k0, 0), (BOGUS, 1))))
        ops.append(("update", form, ((BOGUS, 1), (k0, 0))))
        if k1 != k0:
            ops.append(("update", form, ((k0, 1), (k1, 0))))
    ops.append(("update", "dict+kwargs", ((k0, 0), (BOGUS, 1))))
    for form in ("dict", "pairs", "fixeddict", "otherfixeddict"):
        for k in ks:
            if form == "fixeddict" and k == BOGUS:
                continue
            ops.append(("ior", form, ((k, 1),)))
    for k in ks:
        ops.append(("update", "otherfixeddict", ((k, 1),)))
    ops.append(("ior", "dict", ((k0, 0), (BOGUS, 1))))
    for how in ("method", "copy.copy", "copy.deepcopy", "ctor"):
        ops.append(("copy", how))
    # the library's copy-with-overrides idiom: T(existing, key=value)
    for k in ks:
        ops.append(("copy-override", ((k, 1),)))
    ops.append(("copy-override", ((k0, 0), (BOGUS, 1))))
    for proto in (0, 2, 5):
        ops.append(("pickle", proto))
    for k in keys:
        ops.append(("del", k))
    ops.append(("pop", k0))
    ops.append(("clear",))
    return ops


def constructors(keys):
    ks = list(keys) + [BOGUS]
    out = [("ctor", "empty", ())]
    for form in ("kwargs", "dict", "pairs", "fixeddict"):
        for k in ks:
            if form == "fixeddict" and k == BOGUS:
                continue
            out.append(("ctor", form, ((k, 0),)))
    out.append(("ctor", "dict", ((keys[0], 1), (BOGUS, 0))))
    out.append(("ctor", "dict+kwargs", ((keys[0], 1), (BOGUS, 0))))
    out.append(("ctor", "fixeddict+kwargs", ((keys[0], 1), (BOGUS, 0))))
    out.append(("ctor", "fixeddict+kwargs", ((keys[0], 1), (keys[-1], 0))))
    out.append(("ctor", "pairs+kwargs", ((keys[0], 1), (BOGUS, 0))))
    out.append(("ctor", "otherfixeddict", ((keys[0], 1),)))
    out.append(("ctor", "otherfixeddict", ((BOGUS, 1),)))
    return out


def _mk_arg(T, form, items, vals):
    items = [(k, vals[vi]) for k, vi in items]
    if form == "dict":
        return (dict(items),), {}
    if form == "pairs":
        return (list(items),), {}
    if form == "kwargs":
        return (), dict(items)
    if form == "fixeddict":
        o = T.__new__(T)
        dict.update(o, dict(items))  # bypasses the class under test
        return (o,), {}
    if form == "otherfixeddict":
        # a fixeddict of ANOTHER type holding the same items (bypassing its own key check)
        O = other_type(T)
        o = O.__new__(O)
        dict.update(o, dict(items))
        return (o,), {}
    if form == "dict+kwargs":
        return (dict(items[:1]),), dict(items[1:])
    if form == "pairs+kwargs":
        return (list(items[:1]),), dict(items[1:])
    if form == "fixeddict+kwargs":
        o = T.__new__(T)
        dict.update(o, dict(items[:1]))
        return (o,), dict(items[1:])
    raise ValueError(form)


def apply_op(T, vals, obj, op):
    """Apply op to the real object.  Returns (obj_after, exception or None, extra)."""
    kind = op[0]
    try:
        if kind == "ctor":
            if op[1] == "empty":
                return T(), None, None
            a, kw = _mk_arg(T, op[1], op[2], vals)
            return T(*a, **kw), None, None
        if kind == "setitem":
            obj[op[1]] = vals[op[2]]
        elif kind == "setdefault":
            obj.setdefault(op[1], vals[op[2]])
        elif kind == "update":
            a, kw = _mk_arg(T, op[1], op[2], vals)
            obj.update(*a, **kw)
        elif kind == "ior":
            a, kw = _mk_arg(T, op[1], op[2], vals)
            obj |= a[0]
        elif kind == "copy":
            if op[1] == "method":
                new = obj.copy()
            elif op[1] == "copy.copy":
                new = copy.copy(obj)
            elif op[1] == "copy.deepcopy":
                new = copy.deepcopy(obj)
            else:
                new = T(obj)
            return new, None, obj
        elif kind == "copy-override":
            new = T(obj, **{k: vals[vi] for k, vi in op[1]})
            return new, None, obj
        elif kind == "pickle":
            new = pickle.loads(pickle.dumps(obj, op[1]))
            return new, None, obj
        elif kind == "del":
            del obj[op[1]]
        elif kind == "pop":
            obj.pop(op[1])
        elif kind == "clear":
            obj.clear()
        else:
            raise ValueError(op)
        return obj, None, None
    except Exception as e:  # noqa
        return obj, e, None


def model_op(declared, vals, contents, op):
    """Reference: returns list of allowed (contents_after, error_kind)."""
    kind = op[0]
    c = dict(contents) if contents is not None else {}
    if kind in ("ctor", "update", "ior"):
        if kind == "ctor" and op[1] == "empty":
            return [({}, None)]
        if kind == "ctor":
            c = {}
        items = [(k, vals[vi]) for k, vi in op[2]]
        allowed = []
        before = dict(c)
        for k, v in items:
            if k not in declared:
                if kind == "ctor":
                    return [(None, "keyerror")]
                # rejected: unchanged, or declared keys preceding it applied
                return [(before, "keyerror"), (dict(c), "keyerror")]
            c[k] = v
        return [(c, None)]
    if kind == "setitem":
        if op[1] not in declared:
            return [(c, "keyerror")]
        c[op[1]] = vals[op[2]]
        return [(c, None)]
    if kind == "setdefault":
        if op[1] not in declared:
            return [(c, "keyerror")]
        c.setdefault(op[1], vals[op[2]])
        return [(c, None)]
    if kind in ("copy", "pickle"):
        return [(c, None)]
    if kind == "copy-override":
        if any(k not in declared for k, _ in op[1]):
            return [(c, "keyerror")]
        for k, vi in op[1]:
            c[k] = vals[vi]
        return [(c, None)]
    if kind in ("del", "pop"):
        if op[1] in c:
            del c[op[1]]
            return [(c, None)]
        return [(c, "plain-keyerror")]
    if kind == "clear":
        return [({}, None)]
    raise ValueError(op)


def run_history(tname, hist):
    """Run a history on fresh real objects; returns (problems, final canonical key)."""
    from vc2_conformance.fixeddict import FixedDictKeyError

    T, keys, vals = type_entry(tname)
    declared = set(T.entry_objs.keys())
    obj = None
    contents = None
    problems = []
    for step, op in enumerate(hist):
        if obj is None and op[0] != "ctor":
            raise ValueError("history must start with a constructor")
        new, exc, orig = apply_op(T, vals, obj, op)
        allowed = model_op(declared, vals, contents, op)
        if exc is None:
            kind = None
        elif isinstance(exc, FixedDictKeyError):
            kind = "keyerror"
        elif isinstance(exc, KeyError):
            kind = "plain-keyerror"
        else:
            kind = "other:" + type(exc).__name__
        if op[0] == "ctor":
            if kind is not None:
                ok = any(a_kind == kind for _, a_kind in allowed)
                if not ok:
                    problems.append("step %d %r: constructor raised %r, model allows %r" % (step, op, kind, allowed))
                return problems, ("ctor-failed",)
            if allowed[0][1] is not None:
                problems.append("step %d %r: constructor accepted undeclared key; keys=%r" % (step, op, sorted(map(str, new.keys()))))
                return problems, ("bad",)
            obj, contents = new, allowed[0][0]
        else:
            matched = None
            for a_contents, a_kind in allowed:
                if a_kind == kind and dict(new) == a_contents:
                    matched = a_contents
                    break
            if matched is None:
                problems.append(
                    "step %d %r: implementation -> (%r, %s); model allows %r"
                    % (step, op, dict(new), kind, allowed)
                )
                return problems, ("bad",)
            if orig is not None:
                # copy / pickle: a new, equal object of the same type; original untouched
                if new is orig:
                    problems.append("step %d %r returned the same object" % (step, op))
                if dict(orig) != (contents if op[0] == "copy-override" else matched):
                    problems.append("step %d %r modified the original" % (step, op))
                if op[0] == "copy-override":
                    pass
                elif canon(new) != canon(orig):
                    problems.append("step %d %r: result %r differs from original %r" % (step, op, canon(new), canon(orig)))
                if op[0] != "copy-override" and not (new == orig):
                    problems.append("step %d %r: result != original" % (step, op))
            obj, contents = new, matched
        if type(obj) is not T:
            problems.append("step %d %r: type is %s not %s" % (step, op, type(obj).__name__, T.__name__))
        extra = set(obj.keys()) - declared
        if extra:
            problems.append("step %d %r: undeclared keys present: %r" % (step, op, sorted(map(str, extra))))
        if problems:
            return problems, ("bad",)
    return problems, (tname, canon(obj))


def _shard(arg):
    tname, first_ops, depth = arg
    T, keys, vals = type_entry(tname)
    alpha = alphabet(keys)
    t = Tally()
    for first in first_ops:
        for n in range(0, depth):
            for rest in itertools.product(alpha, repeat=n):
                hist = [first] + list(rest)
                problems, key = run_history(tname, hist)
                t.count("executions")
                t.outcome("final", "rejected-ctor" if key == ("ctor-failed",) else ("bad" if key == ("bad",) else "ok"))
                if problems:
                    t.violation(problems[0], {"type": tname, "history": hist})
                if key == ("ctor-failed",):
                    break  # nothing can follow a failed constructor
            else:
                continue
            break
    return t


def bfs(tname, t, max_depth=12):
    """Explicit-state BFS with dedup on the real object's full contents."""
    T, keys, vals = type_entry(tname)
    alpha = alphabet(keys)
    seen = {}
    frontier = []
    for c in constructors(keys):
        problems, key = run_history(tname, [c])
        t.count("bfs_transitions")
        if problems:
            t.violation(problems[0], {"type": tname, "history": [c]})
        if key[0] in ("ctor-failed", "bad"):
            continue
        if key not in seen:
            seen[key] = [c]
            frontier.append([c])
    depth = 1
    while frontier and depth < max_depth:
        nxt = []
        for hist in frontier:
            for op in alpha:
                h2 = hist + [op]
                problems, key = run_history(tname, h2)
                t.count("bfs_transitions")
                if problems:
                    t.violation(problems[0], {"type": tname, "history": h2})
                    continue
                if key not in seen:
                    seen[key] = h2
                    nxt.append(h2)
        frontier = nxt
        depth += 1
    t.count("bfs_states", len(seen))
    t.n["bfs_max_depth"] = max(t.n["bfs_max_depth"], depth)
    if frontier:
        t.error("BFS for %s did not reach a fixpoint by depth %d" % (tname, max_depth))
    for key in seen:
        t.distinct("states", key)
    t.sample("bfs-deepest", {"type": tname, "history": list(seen.values())[-1]})
    return t


# ----------------------------------------------------------------------------
# Reference cycles through fixeddicts (the validator's State <-> owner callback is one)
# ----------------------------------------------------------------------------


class Owner(object):
    """An object holding a fixeddict which holds a bound method of the object."""

    def __init__(self):
        self.d = None

    def callback(self, *a):
        return a


def shape(x, memo=None):
    """Structure of an object graph with identities replaced by first-visit numbers."""
    if memo is None:
        memo = {}
    if isinstance(x, (dict, list, Owner)) or hasattr(x, "__self__"):
        if id(x) in memo:
            return ("ref", memo[id(x)])
        memo[id(x)] = len(memo)
        if isinstance(x, dict):
            return (type(x).__name__, tuple((repr(k), shape(v, memo)) for k, v in sorted(x.items(), key=lambda kv: repr(kv[0]))))
        if isinstance(x, list):
            return ("list", tuple(shape(v, memo) for v in x))
        if isinstance(x, Owner):
            return ("Owner", shape(x.d, memo))
        return ("method", x.__func__.__name__, shape(x.__self__, memo))
    return (type(x).__name__, repr(x))


CYCLE_SHAPES = ["self", "self-two-keys", "via-list", "via-dict", "via-owner-callback", "mutual-same-type", "mutual-other-type", "cycle-below-root"]
CYCLE_OPS = [("pickle", p) for p in range(0, 6)] + [("deepcopy",)]


def build_cycle(tname, kind):
    T, keys, vals = type_entry(tname)
    k0, k1 = keys[0], keys[-1]
    d = T()
    d[k1] = vals[0]
    if kind == "self":
        d[k0] = d
    elif kind == "self-two-keys":
        d[k0] = d
        d[k1] = d
    elif kind == "via-list":
        d[k0] = [vals[0], d]
    elif kind == "via-dict":
        d[k0] = {"x": d}
    elif kind == "via-owner-callback":
        o = Owner()
        o.d = d
        d[k0] = o.callback
    elif kind == "mutual-same-type":
        e = T()
        e[k0] = d
        d[k0] = e
    elif kind == "mutual-other-type":
        other = "VideoParameters" if tname != "VideoParameters" else "State"
        T2, keys2, _ = type_entry(other)
        e = T2()
        e[keys2[0]] = d
        d[k0] = e
    elif kind == "cycle-below-root":
        e = T()
        e[k0] = e
        d[k0] = [e, e]
    else:
        raise ValueError(kind)
    return d


def check_cycle(tname, kind, op):
    d = build_cycle(tname, kind)
    want = shape(d)
    try:
        if op[0] == "pickle":
            new = pickle.loads(pickle.dumps(d, op[1]))
        else:
            new = copy.deepcopy(d)
    except BaseException as e:  # noqa
        return ["%s of a %s holding a reference cycle (%s) raised %s" % (op, tname, kind, type(e).__name__)]
    problems = []
    if type(new) is not type(d):
        problems.append("%s of cyclic %s (%s): type %s" % (op, tname, kind, type(new).__name__))
    if new is d:
        problems.append("%s of cyclic %s (%s) returned the same object" % (op, tname, kind))
    got = shape(new)
    if got != want:
        problems.append("%s of cyclic %s (%s): structure %r, expected %r" % (op, tname, kind, got, want))
    if shape(d) != want:
        problems.append("%s of cyclic %s (%s) modified the original" % (op, tname, kind))
    return problems


class _Forged(object):
    """Pickles as 'an object of type T with this state' without ever being a valid T."""

    def __init__(self, T, state):
        self.T, self.state = T, state

    def __reduce__(self):
        return (self.T, (), self.state)


def check_forged_pickle(tname, kind, proto):
    """A pickle stream that was not produced from a valid instance (version skew, hand-made):
    loading must either fail or give an instance holding declared keys only."""
    from vc2_conformance.fixeddict import FixedDictKeyError

    T, keys, vals = type_entry(tname)
    declared = set(T.entry_objs.keys())
    if kind == "reduce-undeclared":
        data = pickle.dumps(_Forged(T, {keys[0]: vals[0], BOGUS: 1}), proto)
    elif kind == "reduce-declared":
        data = pickle.dumps(_Forged(T, {keys[0]: vals[0]}), proto)
    elif kind == "renamed-key":
        k = [x for x in keys if isinstance(x, str) and len(x) > 3][0]
        good = T()
        good[k] = vals[0]
        data = pickle.dumps(good, proto)
        forged_name = k[:-1] + ("q" if k[-1] != "q" else "z")
        if k.encode() not in data or forged_name in declared:
            return []
        data = data.replace(k.encode(), forged_name.encode())
    else:
        raise ValueError(kind)
    try:
        obj = pickle.loads(data)
    except FixedDictKeyError:
        return [] if kind != "reduce-declared" else ["loading a well-formed forged pickle raised FixedDictKeyError"]
    except Exception as e:  # noqa
        return [] if kind != "reduce-declared" else ["loading a well-formed forged pickle raised %s" % type(e).__name__]
    problems = []
    if type(obj) is T:
        extra = set(obj.keys()) - declared
        if extra:
            problems.append("unpickling a %s stream (%s, protocol %d) gave a %s holding undeclared keys %r" % (tname, kind, proto, tname, sorted(map(str, extra))))
            for how, cp in (("copy", copy.copy), ("deepcopy", copy.deepcopy)):
                try:
                    c2 = cp(obj)
                    if set(c2.keys()) - declared:
                        problems.append("... and %s of it keeps them" % how)
                except Exception:  # noqa
                    pass
    return problems


def run_forged(total):
    for tname, _T, _k, _v in get_types():
        for kind in ("reduce-undeclared", "reduce-declared", "renamed-key"):
            for proto in range(0, 6):
                total.count("forged_pickles")
                pr = check_forged_pickle(tname, kind, proto)
                if pr:
                    total.violation(pr[0], {"forged": [tname, kind, proto]})


def run_cycles(total):
    for tname, _T, _k, _v in get_types():
        for kind in CYCLE_SHAPES:
            for op in CYCLE_OPS:
                total.count("cycle_cases")
                pr = check_cycle(tname, kind, list(op))
                total.outcome("cycles", "ok" if not pr else "VIOLATION")
                if pr:
                    total.violation(pr[0], {"cycle": [tname, kind, list(op)]})


def run(ctx):
    depth = 3 if ctx.quick else 4
    types = get_types()
    total = Tally()
    shards = []
    for tname, T, keys, vals in types:
        T, keys, vals = type_entry(tname)
        bfs(tname, total)
        for c in constructors(keys):
            shards.append((tname, [c], depth))
    res = pool.map_shards(_shard, shards)
    total.merge(res)
    run_cycles(total)
    run_forged(total)
    n_alpha = {t[0]: len(alphabet(type_entry(t[0])[1])) for t in types}
    total.sample("history", {"type": "State", "history": [("ctor", "empty", ()), ("ior", "dict", ((BOGUS, 1),))]})
    total.sample("history", {"type": "ParseInfo", "history": [("ctor", "kwargs", (("parse_code", 0),)), ("update", "pairs", (("parse_code", 0), (BOGUS, 1))), ("pickle", 2)]})
    cov = {
        "states": total.ndistinct("states"),
        "transitions": total.n["bfs_transitions"] + total.n["executions"],
        "traces_validated_against_impl": total.n["executions"] + total.n["bfs_transitions"],
        "exhaustive": True,
        "bounds": {"forged_pickles": "5 types x {__reduce__ state with / without an undeclared key, a genuine pickle with one key renamed} x protocols 0-5: loading fails or yields declared keys only", "operands_of_other_fixeddict_types": "update / |= / constructor with a fixeddict of another type holding declared or undeclared keys", "cycles": "%d types x %r x %r: structure (identities included) preserved" % (len(types), CYCLE_SHAPES, ["pickle protocols 0-5", "copy.deepcopy"]), "history_depth_without_dedup": depth, "bfs": "to fixpoint (depth %d)" % total.n["bfs_max_depth"], "types": [t[0] for t in types], "alphabet_sizes": n_alpha},
        "rule": "every operation history of length <= depth over the alphabet, replayed on fresh real objects and compared step by step with a plain-dict model; plus BFS to fixpoint with dedup on (type, full contents)",
    }
    return total, cov


def replay_case(case):
    if "cycle" in case:
        return check_cycle(*case["cycle"])
    if "forged" in case:
        return check_forged_pickle(*case["forged"])
    hist = [tuple(tuple(tuple(i) if isinstance(i, list) else i for i in x) if isinstance(x, list) else x for x in op) for op in case["history"]]
    problems, _ = run_history(case["type"], hist)
    return problems
